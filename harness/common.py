"""Shared infrastructure of the artap verification harness.

* one PRNG state per run, derived from VERIF_SEED and the property id
* codecs: phi (order embedding double -> int), exact rationals, IEEE bits
* Lean driver runner (line protocol, one answer per request, `=> ` prefix)
* proof-obligation audit (`#print axioms`, forbidden-token grep, leanchecker)
* evidence / violation / known-finding writers
"""
import fractions
import hashlib
import json
import math
import os
import random
import re
import struct
import subprocess
import sys
import time
import traceback

VERIF = os.path.dirname(os.path.dirname(os.path.abspath(__file__)))
LEAN_DIR = os.path.join(VERIF, "lean")
REPO = os.environ.get("REPO", "/repo")
ALLOWED_AXIOMS = {"propext", "Classical.choice", "Quot.sound"}
FORBIDDEN = re.compile(r"\bsorry\b|\badmit\b|^\s*axiom\s|native_decide|bv_decide|implemented_by|\bunsafe\s|maxHeartbeats\s+0\b",
                       re.M)


class InfraError(Exception):
    """Trouble that is not a verdict about the property (exit status 2)."""


# --------------------------------------------------------------------------- codecs

def phi(x):
    """Strictly monotone map finite double -> int (sign * magnitude bits, +-0 -> 0).
    Commutes with negation, abs and the zero test; bools/ints are converted like Python
    compares them (True == 1.0)."""
    x = float(x)
    if x != x or x in (math.inf, -math.inf):
        raise ValueError("phi: non-finite")
    b = struct.unpack("<q", struct.pack("<d", x))[0]
    return b if b >= 0 else -(b & 0x7FFFFFFFFFFFFFFF)


def rat(x):
    """Exact rational value of a Python number as `num/den`."""
    f = fractions.Fraction(x)
    return "%d/%d" % (f.numerator, f.denominator)


def unrat(s):
    n, d = s.split("/")
    return fractions.Fraction(int(n), int(d))


def bits(x):
    return "%016x" % struct.unpack("<Q", struct.pack("<d", float(x)))[0]


def unbits(s):
    return struct.unpack("<d", struct.pack("<Q", int(s, 16)))[0]


def close(a, b, rel=1e-9, abs_=1e-12):
    """R2/R3 comparison band."""
    if a == b:
        return True
    if math.isinf(a) or math.isinf(b) or a != a or b != b:
        return False
    return abs(a - b) <= abs_ + rel * max(abs(a), abs(b))


def vec(xs, f=str):
    return ",".join(f(x) for x in xs)


def mat(rows, f=str):
    return ";".join(vec(r, f) for r in rows)


# --------------------------------------------------------------------------- lean

_built = set()


def lake_build(prop):
    """Build exactly what this property needs: its theorems and the modules its driver imports.
    (The Lean side is hand-written and does not depend on /repo; a failure here is infrastructure.)"""
    if prop in _built:
        return
    targets = ["ArtapModel.Props." + prop]
    drv = os.path.join(LEAN_DIR, "drivers", prop + ".lean")
    if os.path.exists(drv):
        for line in open(drv):
            m = re.match(r"\s*import\s+(\S+)", line)
            if m:
                targets.append(m.group(1))
    r = subprocess.run(["lake", "build"] + targets, cwd=LEAN_DIR, capture_output=True, text=True, timeout=7200)
    if r.returncode != 0:
        raise InfraError("lake build failed (the Lean side does not depend on /repo):\n" + (r.stdout + r.stderr)[-3000:])
    _built.add(prop)


def lean_run(prop, lines, timeout=3600):
    """Send request lines to the property's model driver, return the answers (prefix stripped)."""
    if not lines:
        return []
    lake_build(prop)
    for l in lines:
        if "\n" in l:
            raise InfraError("newline inside a request")
    r = subprocess.run(["lake", "env", "lean", "--run", "drivers/%s.lean" % prop], cwd=LEAN_DIR,
                       input="\n".join(lines) + "\n", capture_output=True, text=True, timeout=timeout)
    out = r.stdout.splitlines()
    bad = [o for o in out if not o.startswith("=> ")]
    if r.returncode != 0 or bad or len(out) != len(lines):
        raise InfraError("driver protocol error: rc=%s answers=%d requests=%d unprefixed=%r stderr=%r" % (
            r.returncode, len(out), len(lines), bad[:3], r.stderr[-1500:]))
    badop = [l for l, o in zip(lines, out) if o == "=> bad-op"]
    if badop:
        raise InfraError("driver answered bad-op (malformed request from the harness): %r" % badop[:2])
    return [o[3:] for o in out]


def strip_comments(src):
    # remove nested block comments and line comments
    out = []
    i, depth = 0, 0
    while i < len(src):
        if src.startswith("/-", i):
            depth += 1
            i += 2
        elif src.startswith("-/", i) and depth > 0:
            depth -= 1
            i += 2
        elif depth > 0:
            if src[i] == "\n":
                out.append("\n")
            i += 1
        elif src.startswith("--", i):
            while i < len(src) and src[i] != "\n":
                i += 1
        else:
            out.append(src[i])
            i += 1
    return "".join(out)


def lean_sources(prop):
    """Files the property depends on: import closure of Props/<prop>.lean and drivers/<prop>.lean
    inside this project."""
    todo = [os.path.join(LEAN_DIR, "ArtapModel", "Props", prop + ".lean"), os.path.join(LEAN_DIR, "drivers", prop + ".lean")]
    seen = []
    while todo:
        f = todo.pop()
        if f in seen or not os.path.exists(f):
            continue
        seen.append(f)
        for line in open(f):
            m = re.match(r"\s*(?:public\s+)?import\s+(ArtapModel\.\S+)", line)
            if m:
                todo.append(os.path.join(LEAN_DIR, *m.group(1).split(".")) + ".lean")
    return sorted(seen)


def theorem_names(prop):
    path = os.path.join(LEAN_DIR, "ArtapModel", "Props", prop + ".lean")
    src = strip_comments(open(path).read())
    names = []
    ns = []
    for line in src.splitlines():
        m = re.match(r"\s*namespace\s+(\S+)", line)
        if m:
            ns.append(m.group(1))
            continue
        m = re.match(r"\s*end\s+(\S+)", line)
        if m and ns and ns[-1] == m.group(1):
            ns.pop()
            continue
        m = re.match(r"\s*(?:private\s+|protected\s+)?theorem\s+(\S+)", line)
        if m:
            names.append(".".join(ns + [m.group(1)]))
    return names


def audit(prop, thorough=False):
    """Return dict(obligations, discharged, details, checker_cmd).  Every `theorem` of
    Props/<prop>.lean is an obligation; it is discharged when the library builds, the
    theorem's axioms are within the allowed set and no forbidden token occurs in the sources."""
    lake_build(prop)
    names = theorem_names(prop)
    if not names:
        raise InfraError("no theorems found for " + prop)
    bad_tokens = []
    for p in lean_sources(prop):
        m = FORBIDDEN.search(strip_comments(open(p).read()))
        if m:
            bad_tokens.append((os.path.relpath(p, LEAN_DIR), m.group(0).strip()))
    adir = os.path.join(LEAN_DIR, ".lake", "audit")
    os.makedirs(adir, exist_ok=True)
    afile = os.path.join(adir, prop + ".lean")
    with open(afile, "w") as f:
        f.write("import ArtapModel.Props.%s\n" % prop)
        for n in names:
            f.write("#print axioms %s\n" % n)
    r = subprocess.run(["lake", "env", "lean", afile], cwd=LEAN_DIR, capture_output=True, text=True, timeout=1800)
    text = r.stdout.replace("\n ", " ")
    text = re.sub(r"\s+", " ", text)
    details = {}
    for n in names:
        m = re.search(r"'%s' depends on axioms: \[([^\]]*)\]" % re.escape(n), text)
        if m:
            ax = [a.strip() for a in m.group(1).split(",") if a.strip()]
        elif re.search(r"'%s' does not depend on any axioms" % re.escape(n), text):
            ax = []
        else:
            details[n] = {"ok": False, "axioms": None}
            continue
        details[n] = {"ok": set(ax) <= ALLOWED_AXIOMS and not bad_tokens, "axioms": ax}
    cmd = "cd lean && lake build ArtapModel.Props.%s && lake env lean .lake/audit/%s.lean  # '#print axioms' for every theorem of Props/%s.lean" % (prop, prop, prop)
    res = {"obligations": len(names), "discharged": sum(1 for d in details.values() if d["ok"]),
           "details": details, "checker_cmd": cmd, "forbidden_tokens": bad_tokens}
    if thorough:
        rc = subprocess.run(["lake", "env", "leanchecker", "ArtapModel.Props." + prop], cwd=LEAN_DIR,
                            capture_output=True, text=True, timeout=3600)
        res["leanchecker_rc"] = rc.returncode
        res["checker_cmd"] += " && lake env leanchecker ArtapModel.Props." + prop
        if rc.returncode != 0:
            res["discharged"] = 0
            res["leanchecker_out"] = (rc.stdout + rc.stderr)[-2000:]
    if res["discharged"] != res["obligations"]:
        raise InfraError("proof audit failed for %s (Lean side only, independent of /repo): %s" % (
            prop, json.dumps({k: v for k, v in res.items() if k != "checker_cmd"}, default=str)[:3000]))
    return res


# --------------------------------------------------------------------------- translation tie (second tie)

def translation_ties(prop):
    """Regenerate the Lean definitions of the pure core functions from the *current* source under $REPO with
    tools/py2lean.py and re-check the theorems `generated function = hand-written model function`
    (lean/ArtapModel/Tie/*.lean).  Returns one dict per tie module that serves `prop`.
    A tie that no longer checks is not a verdict: the correspondence check (the other tie) then decides."""
    tool = os.path.join(VERIF, "tools", "py2lean.py")
    if not os.path.exists(tool):
        return []
    try:
        r = subprocess.run(["python3", tool, "--list"], capture_output=True, text=True, timeout=120)
    except Exception as e:   # noqa
        return [{"name": "?", "generated": False, "tie_checks": False, "detail": "py2lean --list failed: %r" % (e,)}]
    names = []
    for line in r.stdout.splitlines():
        m = re.match(r"\s*(\S+)\s+\S+\s+serves\s+(\S+)", line)
        if m and prop in m.group(2).split(","):
            names.append(m.group(1))
    out = []
    for n in names:
        try:
            r = subprocess.run(["python3", tool, "--tie", n], capture_output=True, text=True, timeout=1800,
                               env=dict(os.environ, REPO=REPO))
            last = [l for l in r.stdout.splitlines() if l.startswith("{")]
            out.append(json.loads(last[-1]) if last else {"name": n, "generated": False, "tie_checks": False,
                                                           "detail": "no answer from py2lean: " + (r.stdout + r.stderr)[-400:]})
        except Exception as e:   # noqa
            out.append({"name": n, "generated": False, "tie_checks": False, "detail": "py2lean --tie failed: %r" % (e,)})
        if os.path.realpath(REPO) != "/repo":
            # a run against another checkout (seeded change, self-test): put the generated file of /repo back at
            # once, so that the committed lean/ArtapModel/Gen never holds the translation of a scratch tree
            try:
                subprocess.run(["python3", tool, "--gen", n], capture_output=True, text=True, timeout=300,
                               env=dict(os.environ, REPO="/repo"))
            except Exception:   # noqa
                pass
    return out


# --------------------------------------------------------------------------- run context

TRUSTED_BASE = [
    "Lean 4.33 kernel; axioms propext, Classical.choice, Quot.sound only (audited per theorem on this run)",
    "Mathlib v4.33 modules imported by Proofs/ (checked by the same kernel)",
    "hand-written executable model (lean/ArtapModel/Model) tied to /repo by this run's correspondence check, which is a differential test, not a proof",
    "Driver.lean line protocol and the Python harness (generators, codecs, relation R, canonicalisation)",
]


class Ctx:
    def __init__(self, prop, tier, seed):
        self.prop, self.tier, self.seed = prop, tier, seed
        self.rng = random.Random("%s-%d" % (prop, seed))
        self.t0 = time.time()
        self.evaluations = 0
        self.distinct = set()
        self.samples = []
        self.dist = {}
        self.failures = []      # dicts: key, what, case
        self.assumptions = []
        self.rule = ""
        self.extra = {}
        self.traces_validated = 0

    @property
    def quick(self):
        return self.tier == "quick"

    def count(self, name, k=1):
        self.dist[name] = self.dist.get(name, 0) + k

    def case(self, key, nontrivial=True, sample=None):
        """Register one explored case; `key` identifies it for distinctness."""
        self.evaluations += 1
        if nontrivial:
            h = hashlib.blake2b(repr(key).encode(), digest_size=8).digest()
            self.distinct.add(h)
        if sample is not None and len(self.samples) < 6:
            self.samples.append(sample)

    def fail(self, key, what, case, no_input=False):
        self.failures.append({"key": key, "what": what, "case": case, "no_failing_input_found": no_input})

    def lean(self, lines):
        return lean_run(self.prop, lines)


def load_known():
    p = os.path.join(VERIF, "known_findings.json")
    if not os.path.exists(p):
        return {"open": [], "fixed": []}
    return json.load(open(p))


def finish(ctx, aud, level="proof"):
    """Write evidence, print KNOWN-FINDING / VIOLATION lines, return exit status."""
    known = load_known()
    open_keys = {(e["property"], e["key"]): e for e in known.get("open", [])}
    new = []
    printed_known = set()
    for f in ctx.failures:
        e = open_keys.get((ctx.prop, f["key"]))
        if e is not None and not f["no_failing_input_found"]:
            if f["key"] not in printed_known:
                print("KNOWN-FINDING: property=%s %s" % (ctx.prop, e["what"]))
                printed_known.add(f["key"])
        else:
            new.append(f)
    status = 0
    if new:
        f = new[0]
        os.makedirs(os.path.join(VERIF, "replays"), exist_ok=True)
        path = os.path.join("replays", "%s-%d-%d.json" % (ctx.prop, ctx.seed, len(new)))
        with open(os.path.join(VERIF, path), "w") as fh:
            json.dump({"property": ctx.prop, "tier": ctx.tier, "seed": ctx.seed, "key": f["key"], "what": f["what"],
                       "case": f["case"], "no_failing_input_found": f["no_failing_input_found"],
                       "other_failures": [{"key": g["key"], "what": g["what"]} for g in new[1:20]],
                       "replay": "./check %s --replay %s" % (ctx.prop, path)}, fh, indent=1, default=str)
        print("VIOLATION property=%s replay=%s%s" % (ctx.prop, path, " no-failing-input-found" if f["no_failing_input_found"] else ""))
        print("  " + f["what"][:600])
        status = 1
    cov = {
        "obligations": aud["obligations"], "discharged": aud["discharged"], "checker_cmd": aud["checker_cmd"],
        "trusted_base": TRUSTED_BASE + ctx.assumptions,
        "theorems": {k: v["axioms"] for k, v in aud["details"].items()},
        "evaluations": ctx.evaluations, "distinct_nontrivial": len(ctx.distinct), "rule": ctx.rule,
        "samples": ctx.samples[:6], "traces_validated_against_impl": ctx.traces_validated or ctx.evaluations,
        "input_distribution": ctx.dist,
    }
    ties = getattr(ctx, "ties", [])
    if ties:
        cov["translation_tie"] = [{k: t.get(k) for k in ("name", "generated", "tie_checks", "theorems", "source_blob", "detail")} for t in ties]
        cov["translation_tie_checker_cmd"] = "REPO=%s python3 tools/py2lean.py --tie <Name>   # regenerates lean/ArtapModel/Gen/<Name>.lean from the source, lake build ArtapModel.Tie.<Name>, #print axioms" % REPO
    cov.update(ctx.extra)
    ev = {"property_id": ctx.prop, "tier": ctx.tier, "seed": ctx.seed, "level": level, "coverage": cov,
          "assumptions": ctx.assumptions, "wall_s": round(time.time() - ctx.t0, 2), "violations": len(new),
          "known_findings_hit": sorted(printed_known)}
    # runs against a patched scratch checkout (tools/seedtest.py) must not overwrite the committed evidence
    evdir = os.environ.get("VERIF_EVIDENCE_DIR") or os.path.join(VERIF, "evidence")
    os.makedirs(evdir, exist_ok=True)
    with open(os.path.join(evdir, ctx.prop + ".json"), "w") as fh:
        json.dump(ev, fh, indent=1, default=str)
    broken = [t for t in ties if not (t.get("generated") and t.get("tie_checks"))]
    for t in broken:
        print("TIE-BROKEN: property=%s translation tie %s no longer checks against the current source (%s); %s" % (
            ctx.prop, t.get("name"), str(t.get("detail"))[:300],
            "the correspondence check found a failing input" if new else
            "no failing input found by the correspondence check, which still ties the model to the code: the property remains shown through that tie"))
    print("%s %s seed=%d: obligations %d/%d, cases %d (distinct non-trivial %d), violations %d, %.1fs" % (
        ctx.prop, ctx.tier, ctx.seed, aud["discharged"], aud["obligations"], ctx.evaluations, len(ctx.distinct),
        len(new), time.time() - ctx.t0))
    return status


def shrink_list(xs, still_fails, min_len=0):
    """Delta-debugging on list length: drop chunks while the predicate keeps failing."""
    xs = list(xs)
    n = 2
    while len(xs) > min_len and n <= len(xs) * 2:
        chunk = max(1, len(xs) // n)
        removed = False
        i = 0
        while i < len(xs) and len(xs) - chunk >= min_len:
            cand = xs[:i] + xs[i + chunk:]
            try:
                ok = still_fails(cand)
            except Exception:
                ok = False
            if ok:
                xs = cand
                removed = True
            else:
                i += chunk
        if not removed:
            if chunk == 1:
                break
            n *= 2
    return xs


def quiet_artap():
    import logging
    import warnings
    warnings.filterwarnings("ignore")
    logging.disable(logging.CRITICAL)
    if REPO not in sys.path:
        sys.path.insert(0, REPO)
