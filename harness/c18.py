"""C18 — swarm invariants: personal best, velocity clamp, position update, leader archive.

Correspondence: the public update methods of the real OMOPSO / SMPSO / PSOGA objects
(`update_particle_best`, `speed_constriction`, `update_velocity`, `update_position`, `update_global_best`, `run`)
driven in-process on generated swarms, against `Artap.Swarm.*` (Lean model; Props/C18.lean).

* personal best: which particles had their best replaced (R1, phi-encoded costs, exact);
* clamp: `speed_constriction(v, ub, lb)` against the rational model (R2), and the envelope |v_i| <= (ub_i-lb_i)/2
  after `update_velocity` with `select_leader` stubbed (the random draws are free: the clamp theorem quantifies
  over the raw velocity);
* position: every coordinate and velocity component after `update_position` (exact on the bound);
* leaders: after every `update_global_best` (synthetic generations and inside real `run()`s) the leader archive
  has at most N members, mutually non-dominated, drawn from the non-dominated set of (old leaders + swarm),
  of the size and with the feature values the model's `generation` gives;
* run loops, step by step (stream_swarm_runs): real OMOPSO and SMPSO runs are recorded phase by phase (the swarm when
  selector.select / update_velocity / update_position / turbulence / evaluate / update_particle_best /
  update_global_best are entered and left, the leader returned by select_leader, the uniform draws, khi and the inertia
  weights of every particle, every objective call with its outcome and the re-rolled vectors, the leader archive, the
  recorded generations) and replayed through the composed run model of Model/SwarmRun.lean: every iteration through
  `swarmStep` from the recorded parents and leader archive (velocities, positions, what the evaluator receives,
  evaluated costs, personal bests, order / crowding distances / front numbers after update_global_best, leader cost
  sets, evaluation counts), every run through `swarmRun` from its initial vectors (tags, recorded designs, counts,
  leaders of every generation, OMOPSO's eps-archive).  Exact rationals; positions exactly on a bound the model puts
  them on, within 1e-9 elsewhere.
"""
import contextlib
import fractions
import math
import os
import random

from .common import phi, rat, unrat, vec, mat, close
from .c01 import spec_pareto
from .c04 import phix

ALGS = ["OMOPSO", "SMPSO", "PSOGA"]
MARKERS = [0, 1, True, False, 0.5, -0.5, 2, -1, 0.0, 3.25]
FACTOR = {"OMOPSO": -1.0, "PSOGA": -1.0, "SMPSO": 0.001}


# --------------------------------------------------------------------------- implementation adaptor

def make_alg(name, bounds, n_obj=2, pop=8, gens=3, constrained=False):
    from artap.problem import Problem
    import artap.algorithm_swarm as sw

    class VerifProblem(Problem):
        def set(self):
            self.name = "verif-c18"
            self.parameters = [{"name": "x%d" % i, "bounds": [lb, ub]} for i, (lb, ub) in enumerate(bounds)]
            self.costs = [{"name": "f%d" % i, "criteria": "minimize"} for i in range(n_obj)]

        def evaluate(self, individual):
            x = individual.vector
            d = len(x)
            f1 = sum((x[i] - bounds[i][0]) ** 2 for i in range(d))
            f2 = sum((x[i] - bounds[i][1]) ** 2 for i in range(d))
            out = [f1, f2] + [abs(x[0]) + k for k in range(n_obj - 2)]
            return out[:n_obj]

        def evaluate_inequality_constraints(self, vector):
            if not constrained:
                return []
            return [vector[0] - (bounds[0][0] + bounds[0][1]) / 2.0]

    problem = VerifProblem()
    # Problem.__init__ makes /tmp/artap-<name>-<time>/ and registers an atexit rmtree; nothing is written there by
    # these checks, so drop it right away (several problems of one second share the directory)
    wd, problem.working_dir = problem.working_dir, ""
    try:
        os.rmdir(wd)
    except OSError:
        pass
    alg = getattr(sw, name)(problem)
    alg.options["max_population_size"] = pop
    alg.options["max_population_number"] = gens
    alg.options["max_processes"] = 1
    return alg


def particle(vector, costs=None, marker=True, k=None):
    from artap.algorithm_swarm import IndividualSwarm
    p = IndividualSwarm(list(vector))
    if costs is not None:
        p.costs = list(costs)
        p.costs_signed = list(costs) + [marker]
    if k is not None:
        p.custom["k"] = k
    return p


def skey(costs_signed):
    return tuple(phix(v) for v in costs_signed)


def dom_cs(a, b):
    return spec_pareto(a[:-1], b[:-1], a[-1], b[-1]) == 1


# --------------------------------------------------------------------------- personal best

def gen_pbest(rng, m):
    pool = [float(v) for v in range(3)] if rng.random() < 0.5 else [rng.uniform(-5, 5) for _ in range(3)] + [0.0, -0.0, 1e300]
    best = [rng.choice(pool) for _ in range(m)]
    r = rng.random()
    if r < 0.2:
        cur = list(best)
    elif r < 0.45:
        cur = [b + rng.choice([0, 0, 1, 0.5]) for b in best]       # dominated by the old best (or equal)
    elif r < 0.7:
        cur = [b - rng.choice([0, 0, 1, 0.5]) for b in best]       # dominates the old best (or equal)
    else:
        cur = [rng.choice(pool) for _ in range(m)]
    mb = rng.choice(MARKERS)
    mc = mb if rng.random() < 0.6 else rng.choice(MARKERS)
    return cur, mc, best, mb


def impl_pbest(alg, cases):
    """cases: (cur, mc, best, mb) -> list of bool 'best replaced' (None when the two observables disagree)"""
    pop = []
    for i, (cur, mc, best, mb) in enumerate(cases):
        p = particle([float(i), 1.0], cur, mc)
        p.features["best_cost"] = list(best) + [mb]
        p.features["best_vector"] = [-1.0 - i, -7.0]
        pop.append(p)
    alg.update_particle_best(pop)
    out = []
    for i, p in enumerate(pop):
        by_vec = list(p.features["best_vector"]) == [float(i), 1.0]
        kept_vec = list(p.features["best_vector"]) == [-1.0 - i, -7.0]
        cur, mc, best, mb = cases[i]
        bc = p.features["best_cost"]
        is_cur, is_old = skey(bc) == skey(list(cur) + [mc]), skey(bc) == skey(list(best) + [mb])
        if by_vec and is_cur:
            out.append(True)
        elif kept_vec and is_old:
            out.append(False)
        else:
            out.append(None)
    return out


def run_pbest(ctx, algs):
    rng = ctx.rng
    n = 1500 if ctx.quick else 30000
    for name in ALGS:
        cases = [gen_pbest(rng, rng.randint(1, 4)) for _ in range(n)]
        got = impl_pbest(algs[name], cases)
        ans = ctx.lean(["c18.pbest %s|%s|%d,%d" % (vec(c[0], lambda x: str(phi(x))), vec(c[2], lambda x: str(phi(x))),
                                                   phi(c[1]), phi(c[3])) for c in cases])
        for c, g, a in zip(cases, got, ans):
            cur, mc, best, mb = c
            v = spec_pareto(cur, best, mc, mb)
            ctx.case(("pbest", name, skey(cur + [mc]), skey(best + [mb])), v != 0 or cur == best,
                     sample={"op": "pbest", "alg": name, "cur": cur + [repr(mc)], "best": best + [repr(mb)], "replaced": g})
            ctx.count("pbest_verdict_%d" % v)
            want = a == "1"
            if g is None or g != want:
                rel = {1: "the new position dominates the old best", 2: "the old best dominates the new position",
                       0: "neither dominates"}[v]
                ctx.fail("pbest-update", "%s.update_particle_best: new costs %r, old best %r (%s): best %s; the property demands %s" % (
                    name, cur + [mc], best + [mb], rel,
                    "inconsistent (best_cost and best_vector disagree)" if g is None else ("replaced" if g else "kept"),
                    "replaced" if want else "kept"),
                    {"op": "pbest", "alg": name, "cur": cur, "mc": repr(mc), "best": best, "mb": repr(mb)})
                return True
    return False


# --------------------------------------------------------------------------- velocity

def gen_box(rng):
    r = rng.random()
    if r < 0.25:
        lb = float(rng.randint(-4, 4))
        ub = lb + rng.choice([1.0, 2.0, 0.5, 8.0])
    elif r < 0.35:
        lb = rng.uniform(-3, 3)
        ub = lb                       # degenerate box
    else:
        s = 10 ** rng.uniform(-3, 4)
        lb = rng.uniform(-s, s)
        ub = lb + rng.uniform(0.01, 2) * s
    return lb, ub


def run_clamp(ctx, algs):
    rng = ctx.rng
    from artap.algorithm_swarm import SwarmAlgorithm
    fn = getattr(SwarmAlgorithm, "speed_constriction", None)
    n = 3000 if ctx.quick else 60000
    if fn is None:
        ctx.count("speed_constriction_absent")
    else:
        cases = []
        for _ in range(n):
            lb, ub = gen_box(rng)
            d = (ub - lb) / 2.0
            r = rng.random()
            if r < 0.3:
                v = rng.uniform(-d, d)
            elif r < 0.4:
                v = rng.choice([d, -d, 0.0, -0.0])
            elif r < 0.7:
                v = rng.choice([-1, 1]) * d * rng.uniform(1.001, 5) + rng.choice([-1, 1]) * 1e-3
            else:
                v = rng.choice([-1, 1]) * 10 ** rng.uniform(0, 8)
            cases.append((v, ub, lb))
        got = [fn(*c) for c in cases]
        ans = ctx.lean(["c18.clamp %s" % vec(c, rat) for c in cases])
        for c, g, a in zip(cases, got, ans):
            v, ub, lb = c
            want = float(unrat(a))
            d = (ub - lb) / 2.0
            zone = "inside" if abs(v) <= d else "above" if v > d else "below"
            ctx.case(("clamp", c), zone != "inside", sample={"op": "clamp", "v": v, "ub": ub, "lb": lb, "out": g})
            ctx.count("clamp_" + zone)
            ok = close(float(g), want) and (float(g) == v if unrat(a) == unrat(rat(v)) else True)
            if not ok:
                ctx.fail("velocity-clamp", "speed_constriction(v=%r, ub=%r, lb=%r) = %r; the clamp to +-(ub-lb)/2 = +-%r gives %r" % (
                    v, ub, lb, g, d, want), {"op": "clamp", "v": v, "ub": ub, "lb": lb})
                return True
    # envelope after update_velocity (select_leader stubbed; the draws inside are free)
    n_sw = 120 if ctx.quick else 2500
    for name in ALGS:
        for _ in range(n_sw):
            dim = rng.randint(1, 4)
            bounds = [gen_box(rng) for _ in range(dim)]
            bounds = [(lb, ub if ub > lb else lb + 1.0) for lb, ub in bounds]
            alg = make_alg(name, bounds)
            far = rng.random() < 0.5
            pop = []
            for k in range(rng.randint(1, 4)):
                scale = 1e6 if far and rng.random() < 0.7 else 1.0
                x = [rng.uniform(lb, ub) + rng.choice([0, 0, -1, 1]) * scale * rng.uniform(0.5, 2) for lb, ub in bounds]
                p = particle(x, [0.0, 0.0], True)
                p.features["best_vector"] = [rng.uniform(lb, ub) + rng.choice([0, 0, -1, 1]) * scale for lb, ub in bounds]
                p.features["velocity"] = [rng.uniform(-1, 1) * scale * 10 for _ in bounds]
                pop.append(p)
            leader = particle([rng.uniform(lb, ub) + rng.choice([0, 0, -1, 1]) * (1e6 if far else 1.0) for lb, ub in bounds], [0.0, 0.0], True)
            alg.select_leader = lambda leader=leader: leader
            alg.update_velocity(pop)
            for p in pop:
                vel = list(p.features["velocity"])
                hit = 0
                bad = len(vel) != dim
                for i, (lb, ub) in enumerate(bounds):
                    if bad:
                        break
                    d = (ub - lb) / 2.0
                    if not (abs(vel[i]) <= d * (1 + 1e-12)):
                        bad = True
                    if close(abs(vel[i]), d):
                        hit += 1
                ctx.case(("vel", name, tuple(p.vector), tuple(bounds)), hit > 0)
                ctx.count("velocity_components_on_limit", hit)
                ctx.count("velocity_components", dim)
                if bad:
                    ctx.fail("velocity-envelope", "%s.update_velocity: particle at %r in box %r got velocity %r, outside +-half the parameter range %r" % (
                        name, p.vector, bounds, vel, [(ub - lb) / 2.0 for lb, ub in bounds]),
                        {"op": "velocity", "alg": name, "bounds": bounds, "x": list(p.vector), "best_vector": list(p.features["best_vector"]),
                         "leader": list(leader.vector)})
                    return True
    return False


# --------------------------------------------------------------------------- position

def gen_pos(rng, lb, ub, exact):
    w = ub - lb
    if exact:      # dyadic values: x + v is computed exactly, so ties with a bound are decided exactly
        q = 64.0
        x = math.floor(rng.uniform(lb - w, ub + w) * q) / q
        r = rng.random()
        if r < 0.3:
            v = ub - x
        elif r < 0.5:
            v = lb - x
        else:
            v = math.floor(rng.uniform(-2 * w - 1, 2 * w + 1) * q) / q
        return x, v
    r = rng.random()
    x = rng.uniform(lb, ub) if r < 0.7 else rng.uniform(lb - 3 * w - 1, ub + 3 * w + 1)
    r = rng.random()
    if r < 0.4:
        v = rng.uniform(-w, w) / 2
    elif r < 0.8:
        v = rng.uniform(-3 * w - 1, 3 * w + 1)
    else:
        v = rng.choice([-1, 1]) * 10 ** rng.uniform(2, 12)
    return x, v


def run_position(ctx, algs):
    rng = ctx.rng
    n = 250 if ctx.quick else 6000
    for name in ALGS:
        reqs, meta = [], []
        for _ in range(n):
            dim = rng.randint(1, 5)
            exact = rng.random() < 0.4
            if exact:
                bounds = []
                for _ in range(dim):
                    lb = float(rng.randint(-8, 8)) / 4
                    bounds.append((lb, lb + rng.choice([0.25, 1.0, 2.0, 0.0, 16.0])))
            else:
                bounds = [gen_box(rng) for _ in range(dim)]
            xs, vs = [], []
            for lb, ub in bounds:
                x, v = gen_pos(rng, lb, ub, exact)
                s = x + v
                if not exact and any(abs(s - b) <= 1e-9 * max(abs(s), abs(b), abs(x), abs(v)) for b in (lb, ub)):
                    v = v * 2 + 1.0     # keep the decision away from rounding distance of a bound
                xs.append(x)
                vs.append(v)
            alg = make_alg(name, bounds)
            p = particle(xs, [0.0, 0.0], True)
            p.features["velocity"] = list(vs)
            q = particle(xs, [0.0, 0.0], True)       # a second particle: the loop must treat every particle
            q.features["velocity"] = list(vs)
            alg.update_position([p, q])
            reqs.append("c18.pos %s|%s|%s|%s|%s" % (name, vec(xs, rat), vec(vs, rat), vec([b[0] for b in bounds], rat),
                                                    vec([b[1] for b in bounds], rat)))
            meta.append((bounds, xs, vs, [(list(o.vector), list(o.features["velocity"])) for o in (p, q)], exact))
        ans = ctx.lean(reqs)
        for (bounds, xs, vs, outs, exact), a in zip(meta, ans):
            mx, mv = [[unrat(t) for t in part.split(",")] for part in a.split("|")]
            zones = []
            for i, (lb, ub) in enumerate(bounds):
                s = unrat(rat(xs[i])) + unrat(rat(vs[i]))
                zones.append("above" if s > unrat(rat(ub)) else "below" if s < unrat(rat(lb)) else
                             "on-bound" if s in (unrat(rat(ub)), unrat(rat(lb))) else "inside")
            for z in zones:
                ctx.count("position_" + z)
            ctx.case(("pos", name, tuple(xs), tuple(vs), tuple(bounds)), any(z != "inside" for z in zones),
                     sample={"op": "position", "alg": name, "bounds": bounds, "x": xs, "v": vs, "x_after": outs[0][0], "v_after": outs[0][1]})
            for which, (ox, ov) in enumerate(outs):
                for i, (lb, ub) in enumerate(bounds):
                    z = zones[i]
                    wantx, wantv = float(mx[i]), float(mv[i])
                    okx = (ox[i] == wantx) if z in ("above", "below") or exact else close(ox[i], wantx)
                    okv = close(ov[i], wantv) if z in ("above", "below") else ov[i] == vs[i]
                    if len(ox) != len(bounds) or not okx or not okv:
                        ctx.fail("position-update", "%s.update_position (particle %d): coordinate %d x=%r v=%r box [%r, %r] (x+v %s) became x=%r v=%r; "
                                 "the property demands x=%r v=%r (%s)" % (name, which, i, xs[i], vs[i], lb, ub, z, ox[i], ov[i], wantx, wantv,
                                                                         "velocity reversed" if FACTOR[name] < 0 else "velocity damped by 0.001"),
                                 {"op": "position", "alg": name, "bounds": bounds, "x": xs, "v": vs})
                        return True
    return False


# --------------------------------------------------------------------------- leaders

def leaders_of(alg):
    return list(alg.leaders)


def check_leaders_P(leaders, n):
    """property predicate on the implementation's leader archive: bounded, mutually non-dominated, no duplicates"""
    if len(leaders) > n:
        return "the leader archive has %d members, more than the population size %d" % (len(leaders), n)
    cs = [list(l.costs_signed) for l in leaders]
    for i in range(len(cs)):
        for j in range(len(cs)):
            if i != j and dom_cs(cs[i], cs[j]):
                return "leader %r dominates leader %r" % (cs[i], cs[j])
            if i < j and skey(cs[i]) == skey(cs[j]):
                return "two leaders carry the same signed-cost vector %r" % (cs[i],)
    return None


def gen_swarm(rng, size, m, dup_rate, infeasible_rate, near=False):
    """cost vectors on a 0.25 grid (bit-identical or well separated); with `near` some coordinates are moved by a relative
    gap k*1e-13, k in 1..10^4 (nearly tied but different: hundreds to millions of ulps, so exact arithmetic decides)"""
    def nudge(v):
        if near and rng.random() < 0.4:
            return v * (1 + int(10 ** rng.uniform(0, 4)) * 1e-13 * rng.choice([-1, 1]))
        return v
    out = []
    span = rng.choice([3, 6, 12])
    for _ in range(size):
        if out and rng.random() < dup_rate:
            c, mk = rng.choice(out)
            out.append((list(c), mk))
            continue
        if rng.random() < 0.5 and m >= 2:     # near a front
            a = rng.randint(0, span)
            c = [a * 0.25, (span - a) * 0.25 + rng.choice([0, 0, 0.25, 0.5])] + [rng.randint(0, 2) * 0.25 for _ in range(m - 2)]
        else:
            c = [rng.randint(0, span) * 0.25 for _ in range(m)]
        out.append(([nudge(v) for v in c], (rng.random() < infeasible_rate)))
    return out


def run_leaders(ctx, algs):
    rng = ctx.rng
    n_seq = 50 if ctx.quick else 900
    pending = []
    for name in ALGS:
        for _ in range(n_seq):
            N = rng.randint(1, 7)
            m = rng.choice([2, 2, 3])
            dup_rate = rng.choice([0.0, 0.0, 0.0, 0.15])
            inf_rate = rng.choice([0.0, 0.0, 0.3])
            alg = make_alg(name, [(0.0, 1.0)] * 2, n_obj=m, pop=N)
            near = rng.random() < 0.3
            ctx.count("leaders_sequences_with_near_ties" if near else "leaders_sequences_grid")
            counter = [0]
            history = []          # for the replay: swarms as offered, generation by generation
            for g in range(rng.randint(1, 6)):
                spec = gen_swarm(rng, rng.randint(1, 10), m, dup_rate, inf_rate, near)
                swarm = []
                for c, mk in spec:
                    p = particle([0.5, 0.5], c, mk, k=counter[0])
                    p.features["crowding_distance"] = rng.choice([0.0, 0.5, 1.0, 2.0, math.inf])   # used by OMOPSO as it stands
                    counter[0] += 1
                    swarm.append(p)
                history.append([(c, mk, p.features["crowding_distance"]) for (c, mk), p in zip(spec, swarm)])
                before = leaders_of(alg)
                case = {"op": "leaders", "alg": name, "N": N, "m": m, "generations": [[[list(c), bool(mk), repr(f)] for c, mk, f in gen] for gen in history]}
                try:
                    alg.update_global_best(swarm)
                except (IndexError, ZeroDivisionError) as e:
                    ctx.fail("leaders-raise", "%s.update_global_best, generation %d, population size %d raised %s: %s (the leader archive "
                             "model cannot raise)" % (name, g, N, type(e).__name__, e), case)
                    return True
                after = leaders_of(alg)
                msg = check_leaders_P(after, N)
                if msg:
                    ctx.fail("leaders-invariant", "%s.update_global_best, generation %d, population size %d: %s" % (name, g, N, msg), case)
                    return True
                # model: old leaders (order as held) then the swarm as it stands after the call
                feat = lambda o: phix(o.features["crowding_distance"])
                offered = list(swarm)
                allobj = before + offered
                req = "c18.gen %s|%s|%s|%s|%s|%s|%s|%d" % (
                    vec([0.1, 0.1], rat),
                    mat([o.costs_signed[:-1] for o in before], rat), vec([o.costs_signed[-1] for o in before], lambda x: str(phi(x))),
                    vec(before, lambda o: str(feat(o))),
                    mat([o.costs_signed[:-1] for o in offered], rat), vec([o.costs_signed[-1] for o in offered], lambda x: str(phi(x))),
                    vec(offered, lambda o: str(feat(o))), N)
                pending.append((req, name, g, N, case, [list(o.costs_signed) for o in allobj], [feat(o) for o in allobj],
                                [o.features["crowding_distance"] for o in allobj], len(before),
                                [{id(o): i for i, o in enumerate(allobj)}.get(id(o), -1) for o in after], [c for c, _ in spec]))
    answers = ctx.lean([p[0] for p in pending])
    for (req, name, g, N, case, costs, feats, cds, nbefore, after_ix, spec_costs), a in zip(pending, answers):
        if a == "raise":
            ctx.fail("leaders-model-raise", "model raised on a generation the code accepted", case)
            return True
        _, pre, post = a.split("|")
        pre = [int(t) for t in pre.split(",")] if pre else []
        post = [int(t) for t in post.split(",")] if post else []
        keys_all = [skey(c) for c in costs]
        prekeys = set(keys_all[i] for i in pre)
        has_dup = len(set(keys_all)) != len(keys_all)
        cut = len(pre) > N
        ctx.case(("leaders", name, N, tuple(keys_all), tuple(feats)), cut and nbefore > 0,
                 sample={"op": "leaders", "alg": name, "N": N, "leaders_before": [list(map(float, c[:-1])) for c in costs[:nbefore]][:6],
                         "swarm": spec_costs[:8], "leaders_after": len(after_ix)})
        ctx.count("leaders_truncation_cuts" if cut else "leaders_truncation_keeps_all")
        ctx.count("leaders_gen_with_duplicates" if has_dup else "leaders_gen_without_duplicates")
        bad = None
        if -1 in after_ix or not set(keys_all[i] for i in after_ix) <= prekeys:
            bad = "a leader is not in the non-dominated set of (old leaders + swarm)"
        elif len(after_ix) != len(post):
            bad = "%d leaders kept, the non-dominated set has %d members and the population size is %d" % (len(after_ix), len(pre), N)
        elif not has_dup and sorted(feats[i] for i in after_ix) != sorted(feats[i] for i in post):
            bad = "kept crowding distances %r, the %d largest of the non-dominated set are %r" % (
                sorted(cds[i] for i in after_ix), N, sorted(cds[i] for i in post))
        if bad:
            ctx.fail("leaders-generation", "%s.update_global_best, generation %d, population size %d: %s" % (name, g, N, bad), case)
            return True
    # real runs: the invariant after every generation
    n_runs = 6 if ctx.quick else 60
    for name in ALGS:
        for _ in range(n_runs):
            N = rng.randint(2, 10)
            dim = rng.randint(1, 3)
            bounds = [(lb, ub if ub > lb else lb + 1.0) for lb, ub in (gen_box(rng) for _ in range(dim))]
            gens = rng.randint(1, 6)
            alg = make_alg(name, bounds, n_obj=2, pop=N, gens=gens, constrained=rng.random() < 0.3)
            seen = []
            orig = alg.update_global_best

            def wrapped(swarm, orig=orig, alg=alg, seen=seen, N=N):
                r = orig(swarm)
                seen.append(check_leaders_P(leaders_of(alg), N))
                return r
            alg.update_global_best = wrapped
            import random as _random
            st = _random.getstate()
            _random.seed(rng.getrandbits(32))
            try:
                alg.run()
            finally:
                _random.setstate(st)
            ctx.case(("run", name, N, dim, gens, tuple(bounds)), len(seen) >= 2)
            ctx.count("real_run_generations", len(seen))
            bad = [s for s in seen if s]
            if bad or len(seen) == 0:
                ctx.fail("leaders-run", "%s.run() with population size %d on box %r: %s" % (
                    name, N, bounds, bad[0] if bad else "update_global_best was never called"),
                    {"op": "run", "alg": name, "N": N, "bounds": bounds, "gens": gens})
                return True
    return False


# --------------------------------------------------------------------------- composed run model (Model/SwarmRun.lean)
#
# Real OMOPSO / SMPSO runs are recorded phase by phase: the public methods of the run loop (selector.select,
# update_velocity, update_position, turbulence, evaluate, update_particle_best, update_global_best) are wrapped on the
# algorithm object and the swarm is snapshotted when each one is entered and left; select_leader, khi, inertia_weight
# and the module-level `uniform` of artap.algorithm_swarm are wrapped to capture the leader and the draws of every
# particle; the objective logs every call.  Every iteration is then replayed from the recorded parents and leader
# archive through `swarmStep`, and every run from its initial vectors through `swarmRun` (exact rationals).

Fr = fractions.Fraction
RUN_ALGS = ["OMOPSO", "SMPSO"]
# Before the repair e5e75bc PSOGA.run gave a GA child the feature dictionary of the particle it was made from
# (`offspring.features = selected.features`); update_particle_best(offsprings) then overwrote that particle's personal best with the
# child's position, sometimes with a position the old best dominates (finding C18-psoga-shared-features).  Every particle must
# leave update_particle_best with its old best or its own new position.
PSOGA_SHARED_FEATURES_IS_VIOLATION = True
PHASES = ["update_velocity", "update_position", "turbulence", "evaluate", "update_particle_best", "update_global_best"]


def run_problem(cfg):
    from artap.problem import Problem
    bounds, nobj, kind, fail_p = cfg["bounds"], cfg["nobj"], cfg["kind"], cfg["fail_p"]
    frng = random.Random(cfg["seed"] * 7919 + 13)

    class SP(Problem):
        def set(self, **kw):
            self.name = "c18s"
            self.parameters = [{"name": "x%d" % i, "bounds": [lb, ub]} for i, (lb, ub) in enumerate(bounds)]
            crit = ["minimize", "maximize", "minimize"]
            self.costs = [{"name": "f%d" % j, "criteria": "minimize" if nobj == 1 else crit[j % 3]} for j in range(nobj)]
            self.calls = []

        def evaluate_inequality_constraints(self, x):
            if kind == "constrained":
                lb, ub = bounds[0]
                return [x[0] - (lb + 0.6 * (ub - lb))]
            return []

        def evaluate(self, ind):
            v = tuple(float(t) for t in ind.vector)
            if fail_p and frng.random() < fail_p:
                k = "t" if frng.random() < 0.5 else "r"
                self.calls.append((ind, v, k, None))
                raise (TimeoutError if k == "t" else RuntimeError)("injected")
            c = []
            for j in range(nobj):
                s = 0.0
                for t, (lb, ub) in zip(v, bounds):
                    w = (ub - lb) or 1.0
                    s += ((t - lb) / w - (0.15 + 0.35 * j)) ** 2
                c.append(s if j != 1 else -s + 0.25 * sum((t - lb) / ((ub - lb) or 1.0) for t, (lb, ub) in zip(v, bounds)))
            self.calls.append((ind, v, "o", list(c)))
            return c

    p = SP()
    wd, p.working_dir = p.working_dir, ""
    try:
        os.rmdir(wd)
    except OSError:
        pass
    return p


def snap(q):
    f = q.features
    vel = f.get("velocity")
    return {"obj": q, "x": [float(t) for t in q.vector], "v": [float(t) for t in vel] if isinstance(vel, list) else [],
            "cs": list(q.costs_signed), "bv": [float(t) for t in f["best_vector"]] if f.get("best_vector") is not None else None,
            "bc": list(f["best_cost"]) if f.get("best_cost") is not None else None,
            "cd": f.get("crowding_distance", 0), "fn": f.get("front_number", 0), "feas": f.get("feasible", 0.0)}


def record_swarm(cfg):
    """Run the real algorithm with every phase of the loop observed."""
    import numpy as np
    import artap.algorithm_swarm as sw
    random.seed(cfg["seed"])
    np.random.seed(cfg["seed"] % (2 ** 32))
    p = run_problem(cfg)
    a = getattr(sw, cfg["algo"])(p)
    a.options["max_population_size"] = cfg["N"]
    a.options["max_population_number"] = cfg["G"]
    a.options["max_processes"] = 1
    a.options["prob_mutation"] = cfg["pm"]
    if getattr(a, "mutator", None) is not None:
        a.mutator.probability = cfg["pm"]
    init_rec = {"ev": {}, "order": [], "draws": [], "init": True}
    recs = []
    st = {"cur": init_rec, "in_vel": False, "in_w": False, "flat": None}

    def buckets_of(flat, dims, a):
        """What was drawn / looked up during one update_velocity call, dealt out to the particles BY COUNT (k-th leader,
        k-th pair of r-draws, k-th pair of c-draws, k-th block of inertia weights): the order of the draws inside a
        particle's turn - before or after the leader is chosen, coefficients before weights ... - is free."""
        n = len(flat["leader"])
        rs = [t for t in flat["u"] if (t[0], t[1]) == (a.r1_min, a.r1_max)]
        cs = [t for t in flat["u"] if (t[0], t[1]) == (a.c1_min, a.c1_max)]
        by_range = len(rs) == 2 * n and len(cs) == 2 * n and (a.r1_min, a.r1_max) != (a.c1_min, a.c1_max)
        out, wpos = [], 0
        for k in range(n):
            d = dims[k] if k < len(dims) else 0
            u = (rs[2 * k:2 * k + 2] + cs[2 * k:2 * k + 2]) if by_range else flat["u"][4 * k:4 * k + 4]
            w = flat["w"][wpos:wpos + d] if len(flat["w"]) >= wpos + d else []
            wpos += d
            out.append({"leader": flat["leader"][k], "u": u, "w": w,
                        "khi": flat["khi"][k:k + 1] if len(flat["khi"]) == n else []})
        return out

    def wrap_phase(name):
        orig = getattr(a, name)

        def w(pop, *args, **kw):
            rec = st["cur"]
            rec["order"].append(name)
            rec["ev"].setdefault(name + ":in", [snap(q) for q in pop])
            if name == "evaluate":
                rec.setdefault("log_start", len(p.calls))
            if name == "update_velocity":
                st["in_vel"] = True
                st["flat"] = {"leader": [], "u": [], "w": [], "khi": []}
            try:
                r = orig(pop, *args, **kw)
            finally:
                if name == "update_velocity":
                    st["in_vel"] = False
                    rec["draws"].extend(buckets_of(st["flat"], [len(q.vector) for q in pop], a))
                    st["flat"] = None
            rec["ev"][name + ":out"] = [snap(q) for q in pop]
            if name == "evaluate":
                rec["log_end"] = len(p.calls)
            if name == "update_global_best":
                rec["leaders_after"] = [snap(l) for l in a.leaders._contents]
            return r
        setattr(a, name, w)

    for name in PHASES:
        wrap_phase(name)
    copier = a.offspring_selector if cfg["algo"] == "PSOGA" else a.selector       # the CopySelector of the loop
    orig_select = copier.select

    def select(individuals):
        rec = {"ev": {}, "order": [], "draws": [], "parents": [snap(q) for q in individuals],
               "leaders": [snap(l) for l in a.leaders._contents]}
        recs.append(rec)
        st["cur"] = rec
        return orig_select(individuals)
    copier.select = select
    orig_leader, orig_khi, orig_w = a.select_leader, a.khi, a.inertia_weight

    def select_leader():
        g = orig_leader()
        if st["in_vel"]:
            st["flat"]["leader"].append(snap(g))
        return g

    def khi(c1, c2):
        v = orig_khi(c1, c2)
        if st["in_vel"]:
            st["flat"]["khi"].append((c1, c2, v))
        return v

    def inertia_weight():
        st["in_w"] = True
        try:
            v = orig_w()
        finally:
            st["in_w"] = False
        if st["in_vel"]:
            st["flat"]["w"].append(v)
        return v
    a.select_leader, a.khi, a.inertia_weight = select_leader, khi, inertia_weight
    real_uniform = sw.uniform

    def uniform(lo, hi):
        v = real_uniform(lo, hi)
        if st["in_vel"] and not st["in_w"]:
            st["flat"]["u"].append((lo, hi, v))
        return v
    sw.uniform = uniform
    try:
        with open(os.devnull, "w") as dn, contextlib.redirect_stdout(dn), contextlib.redirect_stderr(dn):
            a.run()
    finally:
        sw.uniform = real_uniform
    return {"cfg": cfg, "p": p, "a": a, "init": init_rec, "recs": recs}


# ---- encoding

def rv(v):
    return ",".join(rat(float(t)) for t in v)


def crowd_s(c):
    return "inf" if c == math.inf else rat(float(c))


def feas_s(f):
    return ("y" if f else "n") if isinstance(f, bool) else "d"


def particle_s(s):
    cs, bc = s["cs"], s["bc"]
    fn = s["fn"] if isinstance(s["fn"], int) and s["fn"] >= 0 else 0
    return ":".join([rv(s["x"]), rv(s["v"]), rv(cs[:-1]), str(int(cs[-1])) if cs else "N", feas_s(s["feas"]),
                     rv(s["bv"] or []), rv(bc[:-1]) if bc else "", str(int(bc[-1])) if bc else "N", crowd_s(s["cd"]), str(fn)])


def s_calls_by_object(p):
    by = {}
    for ind, v, k, c in p.calls:
        by.setdefault(id(ind), []).append((v, k))
    return by


def s_spec_of(by, obj):
    cs = by.get(id(obj), [])
    vecs = [v for v, _ in cs] or [tuple(float(t) for t in obj.vector)]
    return "7:%s:%s" % (",".join(k for _, k in cs), ";".join(rv(v) for v in vecs))


def s_table(p):
    """vector -> (costs as the run stored them, constraint values) for every vector the objective was called with"""
    tab = {}
    for ind, v, k, c in p.calls:
        if k == "o":
            tab[v] = [float(cs) * float(s) for cs, s in zip(ind.costs_signed[:-1], p.signs)]
        else:
            tab.setdefault(v, None)
    ents = []
    for v, c in tab.items():
        g = [float(t) for t in p.evaluate_inequality_constraints(list(v))]
        ents.append("%s:%s:%s" % (rv(v), rv(c) if c is not None else "", rv(g)))
    return "#".join(ents)


def box_s(cfg):
    return ";".join("%s,%s,%s" % (rat(lb), rat(ub), rat(1e-12 + 1e-15 * max(abs(lb), abs(ub)))) for lb, ub in cfg["bounds"])


def eps_of(archive):
    e = getattr(getattr(archive, "_dominance", None), "epsilons", None)
    if e is None:
        return []
    return [float(t) for t in (e if hasattr(e, "__getitem__") else [e])]


def clampf(v, ub, lb):
    d = (ub - lb) / 2.0
    return max(min(v, d), -d)


def draws_of(rr, rec):
    """Per particle: leader vector, r1, r2, c1, c2, khi, inertia weights.  The two (0,1) draws and the two c draws are
    assigned to (r1, r2) / (c1, c2) in the order that reproduces the observed velocity (values, not call order)."""
    a, cfg = rr["a"], rr["cfg"]
    before = rec["ev"].get("update_velocity:in") or []
    after = rec["ev"].get("update_velocity:out") or []
    out = []
    for k, b in enumerate(rec["draws"]):
        us = b["u"]
        rs = [round(v, 1) for lo, hi, v in us if (lo, hi) == (a.r1_min, a.r1_max)]
        cs = [round(v, 1) for lo, hi, v in us if (lo, hi) == (a.c1_min, a.c1_max)]
        if len(rs) != 2 or len(cs) != 2:
            vals = [round(v, 1) for _, _, v in us] + [0.0] * 4
            rs, cs = vals[0:2], vals[2:4]
        if b["khi"]:
            kh = b["khi"][0][2]
        else:
            rho = cs[0] + cs[1]
            kh = 1.0 if rho <= 4 else 2.0 / (2.0 - rho - (rho ** 2.0 - 4.0 * rho) ** 0.5)
        ws = list(b["w"])
        g = b["leader"]["x"]
        best = None
        if k < len(before) and k < len(after):
            x, pb, obs = before[k]["x"], before[k]["bv"] or [], after[k]["v"]
            ws = ws if len(ws) >= len(x) else ws + [a.min_weight] * (len(x) - len(ws))
            for r1, r2 in ((rs[0], rs[1]), (rs[1], rs[0])):
                for c1, c2 in ((cs[0], cs[1]), (cs[1], cs[0])):
                    try:
                        pred = [clampf((kh * x[i] + c1 * r1 * (pb[i] - x[i]) + c2 * r2 * (g[i] - x[i])) if cfg["algo"] == "PSOGA" else
                                       kh * (ws[i] * x[i] + c1 * r1 * (pb[i] - x[i]) + c2 * r2 * (g[i] - x[i])),
                                       cfg["bounds"][i][1], cfg["bounds"][i][0]) for i in range(len(x))]
                    except IndexError:
                        continue
                    if len(pred) == len(obs) and all(vclose(u, w_, x[i], pb[i], g[i], cfg["bounds"][i]) for i, (u, w_) in enumerate(zip(pred, obs))):
                        best = (r1, r2, c1, c2)
                        break
                if best:
                    break
        if best is None and k < len(before) and k < len(after) and cfg["algo"] != "PSOGA":
            # The recorded draws do not reproduce the velocity under any assignment: the velocity FORMULA is not part of
            # the property (only the clamp is).  Oracle under which the model yields the observed (clamped) velocity:
            # no cognitive / social term, inertia weight v_i / x_i per coordinate.  Where a coordinate is exactly 0 and its
            # velocity is not, no oracle of the model fits: the step is then checked for the band only (vel_unmodelled).
            x, obs = before[k]["x"], after[k]["v"]
            if len(obs) == len(x) and all(xi != 0.0 or vi == 0.0 for xi, vi in zip(x, obs)):
                rec["vel_fallback"] = True
                r1, r2, c1, c2, kh = 0.0, 0.0, cs[0], cs[1], 1.0
                ws = [float(Fr(vi) / Fr(xi)) if xi != 0.0 else 0.0 for xi, vi in zip(x, obs)]
                best = (r1, r2, c1, c2)
            else:
                rec["vel_unmodelled"] = True
        r1, r2, c1, c2 = best or (rs[0], rs[1], cs[0], cs[1])
        lc = b["leader"]["cs"]
        out.append("%s:%s:%s:%s" % (rv(lc[:-1]), str(int(lc[-1])) if lc else "0", rv([r1, r2, c1, c2, kh]), rv(ws)))
    return "#".join(out)


def vclose(a, b, x, pb, g, bd):
    scale = max(abs(x), abs(pb), abs(g), abs(bd[0]), abs(bd[1]), 1e-300)
    return abs(a - b) <= 1e-9 * scale


def state_after(rec, phase):
    """the swarm as observed when `phase` returned; a phase that was not called leaves the previous state"""
    order = ["update_velocity", "update_position", "turbulence"]
    i = order.index(phase)
    while i >= 0:
        s = rec["ev"].get(order[i] + ":out")
        if s is not None:
            return s
        i -= 1
    return rec["ev"].get("update_velocity:in")


def mut_draws(rec, nparams):
    before = state_after(rec, "update_position") or []
    handed = rec["ev"].get("evaluate:in") or []
    by = {id(s["obj"]): s for s in handed}
    out = []
    for s in before:
        h = by.get(id(s["obj"]))
        if h is None or len(h["x"]) != len(s["x"]):
            out.append(";".join("0,0" for _ in range(nparams)) or "-")
            continue
        out.append(";".join("%d,%s" % (1, rat(c)) if c != x0 else "0,0" for x0, c in zip(s["x"], h["x"])) or "-")
    return "#".join(out)


def s_prepare(rr):
    p = rr["p"]
    rr["by"] = s_calls_by_object(p)
    rr["table"] = s_table(p)
    rr["signs"] = ",".join(str(int(s)) for s in p.signs)
    rr["eps"] = rv(eps_of(rr["a"].leaders))
    rr["epsA"] = rv(eps_of(getattr(rr["a"], "archive", None)))
    rr["box"] = box_s(rr["cfg"])
    # two different evaluated positions a few ulps apart (closer than 1e-12 relative) whose stored costs differ: the model, which
    # computes positions exactly, cannot tell which of the two a position is (seen in boxes of width 1e-6: neighbours one ulp apart)
    ok = [(v, [float(t) for t in ind.costs_signed[:-1]]) for ind, v, k, c in p.calls if k == "o"]
    rr["ambiguous"] = any(v1 != v2 and c1 != c2 and len(v1) == len(v2) and all(close(a, b, rel=1e-12, abs_=0.0) for a, b in zip(v1, v2))
                          for i, (v1, c1) in enumerate(ok) for v2, c2 in ok[i + 1:])


def offspring_of(rec):
    return rec["ev"].get("update_velocity:in") or rec["ev"].get("evaluate:in") or []


def step_request(rr, it):
    cfg, rec = rr["cfg"], rr["recs"][it]
    offs = offspring_of(rec)
    specs = "#".join(s_spec_of(rr["by"], s["obj"]) for s in offs)
    return "c18.step %s|%d|%d|%s|%s|%s|%s|%s|%s|%s|%s|%s|%s" % (
        cfg["algo"], cfg["N"], it, rr["eps"], rr["epsA"], rr["box"], rr["signs"], rr["table"], specs,
        "#".join(particle_s(s) for s in rec["parents"]), "#".join(particle_s(s) for s in rec["leaders"]),
        draws_of(rr, rec), mut_draws(rec, len(cfg["bounds"])))


def run_request(rr):
    cfg = rr["cfg"]
    init_objs = [s["obj"] for s in (rr["init"]["ev"].get("evaluate:in") or [])]
    specs = [s_spec_of(rr["by"], o) for o in init_objs]
    init_vecs = [(rr["by"][id(o)][0][0] if id(o) in rr["by"] else tuple(o.vector)) for o in init_objs]
    steps = []
    for it, rec in enumerate(rr["recs"]):
        specs += [s_spec_of(rr["by"], s["obj"]) for s in offspring_of(rec)]
        steps.append("%s!%s" % (draws_of(rr, rec), mut_draws(rec, len(cfg["bounds"]))))
    return "c18.run %s|%d|%d|%s|%s|%s|%s|%s|%s|%s|%s" % (
        cfg["algo"], cfg["N"], cfg["G"], rr["eps"], rr["epsA"], rr["box"], rr["signs"], rr["table"], "#".join(specs),
        ";".join(rv(v) for v in init_vecs), "@".join(steps))


# ---- the clauses of the property evaluated directly on an observed run

def run_clauses(rr):
    cfg, p = rr["cfg"], rr["p"]
    N, G, bounds = cfg["N"], cfg["G"], cfg["bounds"]
    out = []
    tags = {}
    for i in p.individuals:
        tags[i.population_id] = tags.get(i.population_id, 0) + 1
    psoga = cfg["algo"] == "PSOGA"       # its swarm grows by two per generation (not claimed by the property)
    if not psoga and tags != {t: N for t in range(G + 1)}:
        out.append("generations recorded as {tag: count} = %r instead of tags 0..%d with %d designs each" % (tags, G, N))
    ok = sum(1 for c in p.calls if c[2] == "o")
    if not psoga and ok != N * (G + 1):
        out.append("%d successful evaluations instead of N*(G+1) = %d" % (ok, N * (G + 1)))
    for it, rec in enumerate([rr["init"]] + rr["recs"]):
        g = it  # generation number
        va = rec["ev"].get("update_velocity:out")
        for s in va or []:
            for i, (lb, ub) in enumerate(bounds):
                if i < len(s["v"]) and not abs(s["v"][i]) <= (ub - lb) / 2.0 * (1 + 1e-12):
                    out.append("generation %d: velocity %r after update_velocity exceeds half the range of parameter %d [%r, %r]" % (g, s["v"], i, lb, ub))
                    break
        if g >= 1:
            for ind, v, k, c in p.calls[rec.get("log_start", 0):rec.get("log_end", 0)]:
                first = rr["by"][id(ind)][0][0] == v
                if first and (len(v) != len(bounds) or any(not (lb <= t <= ub) for t, (lb, ub) in zip(v, bounds))):
                    out.append("generation %d: the design %r handed to the objective lies outside the box %r" % (g, list(v), bounds))
                    break
            ev_out, pb_out = rec["ev"].get("evaluate:out"), rec["ev"].get("update_particle_best:out")
            ref = {id(s["obj"]): s for s in (pb_out or rec["ev"].get("update_global_best:in") or [])}
            for s in ([] if psoga else ev_out or []):
                t = ref.get(id(s["obj"]))
                if t is None or not s["cs"] or not s["bc"] or not t["bc"]:
                    continue
                dominated = spec_pareto(s["cs"][:-1], s["bc"][:-1], s["cs"][-1], s["bc"][-1]) == 2
                want = s["bc"] if dominated else s["cs"]
                if skey(t["bc"]) != skey(want):
                    out.append("generation %d: particle at %r with signed costs %r and old personal best %r (old best dominates: %s) "
                               "ends with personal best %r" % (g, s["x"], s["cs"], s["bc"], dominated, t["bc"]))
                    break
        la = rec.get("leaders_after")
        if la is not None:
            msg = check_leaders_P([s["obj"] for s in la], N)
            if msg:
                out.append("generation %d: %s" % (g, msg))
    # state invariant of the personal-best rule on every particle the run recorded (also the two GA children PSOGA adds per
    # generation): its personal best is its own evaluated position, or an older best that dominates that position
    for i in p.individuals:
        bc, bv = i.features.get("best_cost"), i.features.get("best_vector")
        if bc is None or bv is None or not i.costs_signed or len(bc) != len(i.costs_signed):
            continue
        own = skey(bc) == skey(i.costs_signed) and [float(t) for t in bv] == [float(t) for t in i.vector]
        if not own and spec_pareto(bc[:-1], i.costs_signed[:-1], bc[-1], i.costs_signed[-1]) != 1:
            out.append("generation %r: the recorded particle at %r with signed costs %r carries the personal best %r at %r, which is "
                       "neither its own position nor a best that dominates it" % (i.population_id, list(i.vector), list(i.costs_signed),
                                                                                list(bc), list(bv)))
            break
    for i in p.individuals:
        if i.population_id == 0 and (len(i.vector) != len(bounds) or any(
                not (lb - 1e-12 - 1e-15 * abs(lb) <= t <= ub + 1e-12 + 1e-15 * abs(ub)) for t, (lb, ub) in zip(i.vector, bounds))):
            out.append("initial design %r outside the box %r" % (list(i.vector), bounds))
            break
    return out


# ---- comparison of the replayed phases with the recorded ones

def fr_list(s):
    return [Fr(t) for t in s.split(",")] if s.strip() else []


def fr_mat(s):
    return [fr_list(r) for r in s.split(";")] if s.strip() else []


def zones_of(x, v, bounds):
    """per coordinate: where x + v lies relative to the box, decided exactly; `near` = within rounding distance"""
    z = []
    for i, (lb, ub) in enumerate(bounds):
        if i >= len(x) or i >= len(v):
            z.append("inside")
            continue
        s = Fr(x[i]) + Fr(v[i])
        scale = max(abs(x[i]), abs(v[i]), abs(lb), abs(ub))
        if any(abs(s - Fr(b)) <= Fr(1e-9) * Fr(scale) and s != Fr(b) for b in (lb, ub)):
            z.append("near")
        elif s > Fr(ub):
            z.append("above")
        elif s < Fr(lb):
            z.append("below")
        else:
            z.append("inside")
    return z


def pclose(a, b, bd):
    a, b = float(a), float(b)
    return close(a, b) or abs(a - b) <= 1e-9 * max(abs(bd[0]), abs(bd[1]))


def leader_keys(snaps):
    return sorted(skey(s["cs"]) for s in snaps)


def parse_leaders(t):
    out = []
    for e in (t.split("#") if t.strip() else []):
        sg, m, cr = e.split(":")
        out.append(([float(Fr(u)) for u in sg.split(",")] if sg.strip() else [], int(m), math.inf if cr == "inf" else float(Fr(cr))))
    return out


def compare_leaders(model, real_snaps):
    """None = same cost sets; 'near-tie' = they differ only by members whose crowding distances tie within rounding at the cut"""
    mk = sorted(skey(c + [mk_]) for c, mk_, _ in model)
    rk = leader_keys(real_snaps)
    if mk == rk:
        return None
    mc = sorted(cr for _, _, cr in model)
    rc = sorted(float(s["cd"]) for s in real_snaps)
    if len(mc) == len(rc) and all(close(a, b) for a, b in zip(mc, rc)):
        return "near-tie"
    return "leaders hold signed costs %r, the model's leader archive %r" % (
        sorted(tuple(s["cs"]) for s in real_snaps), sorted(tuple(c + [m]) for c, m, _ in model))


def compare_flight(head, alg, bounds, k, sin, svel, spos, g, mv, mx, mpv, rr):
    """update_velocity and update_position of one particle against the model (phases 1 and 2)"""
    x0, pb0 = sin["x"], sin["bv"] or []
    # 1. velocity
    rvv = svel["v"]
    if len(rvv) != len(mv) or any(not vclose(a, float(b), x0[i], pb0[i] if i < len(pb0) else 0.0, g[i] if i < len(g) else 0.0, bounds[i])
                                  for i, (a, b) in enumerate(zip(rvv, mv))):
        return ("step-velocity", head + "particle %d at %r (personal best %r, leader %r) got velocity %r from update_velocity; the model "
                "(%s with the recorded draws, clamped to +-(ub-lb)/2) gives %r" % (
                    k, x0, pb0, g, rvv, "khi*x + c1*r1*(pbest-x) + c2*r2*(leader-x)" if alg == "PSOGA" else
                    "khi*(w*x + c1*r1*(pbest-x) + c2*r2*(leader-x))", [float(t) for t in mv]))
    for i, (lb, ub) in enumerate(bounds):
        if i < len(rvv) and not abs(rvv[i]) <= (ub - lb) / 2.0 * (1 + 1e-12):
            return ("step-velocity-band", head + "particle %d: velocity component %d = %r after update_velocity exceeds half the range (ub-lb)/2 = %r" % (
                k, i, rvv[i], (ub - lb) / 2.0))
    # 2. position
    zs = zones_of(x0, rvv, bounds)
    rx, rpv = spos["x"], spos["v"]
    bad = len(rx) != len(mx)
    for i in range(min(len(rx), len(mx), len(bounds))):
        lb, ub = bounds[i]
        z = zs[i]
        if z == "above":
            okx, okv = rx[i] == ub, close(rpv[i], float(mpv[i]))
        elif z == "below":
            okx, okv = rx[i] == lb, close(rpv[i], float(mpv[i]))
        elif z == "near":
            okx, okv = pclose(rx[i], mx[i], bounds[i]), True
            rr["near"] = rr.get("near", 0) + 1
        else:
            okx, okv = pclose(rx[i], mx[i], bounds[i]), rpv[i] == rvv[i]
        bad = bad or not okx or not okv or not (lb <= rx[i] <= ub)
    if bad:
        return ("step-position", head + "particle %d at %r with velocity %r in box %r (x+v: %r) became x=%r v=%r after update_position; the model "
                "(Swarm.updatePosition, factor %r) gives x=%r v=%r" % (k, x0, rvv, bounds, zs, rx, rpv, FACTOR[alg],
                                                                         [float(t) for t in mx], [float(t) for t in mpv]))
    return None


def check_step(rr, it, ans):
    """Compare one replayed iteration with the recorded one.  Returns None, 'near-tie', or (key, what)."""
    cfg, rec = rr["cfg"], rr["recs"][it]
    bounds, alg = cfg["bounds"], cfg["algo"]
    head = "%s %s, iteration it=%d: " % (alg, {k: v for k, v in cfg.items()}, it)
    uncovered = ans.startswith("uncovered ")
    if not ans.startswith("ok") and not uncovered:
        return ("step-" + ans.replace(" ", "-"), head + "the real iteration completed, the composed model (swarmStep) answers %r (raise <phase> = that phase "
                "raises in the model or the recorded draws / leader do not fit it)" % ans)
    f = ans.split(" ", 1)[1].split("|")
    m_vel, m_pos, m_pvel, m_turb = fr_mat(f[0]), fr_mat(f[1]), fr_mat(f[2]), fr_mat(f[3])
    offs = offspring_of(rec)
    ids = [id(s["obj"]) for s in offs]

    def by_id(snaps):
        d = {id(s["obj"]): s for s in (snaps or [])}
        return [d.get(i) for i in ids]
    n = len(offs)
    if not (len(m_vel) == len(m_pos) == len(m_turb) == n) and any(len(s["x"]) > 0 for s in offs):
        return ("step-size", head + "%d particles were selected, the model has %d" % (n, len(m_vel)))
    s_in = by_id(rec["ev"].get("update_velocity:in"))
    s_vel = by_id(state_after(rec, "update_velocity"))
    s_pos = by_id(state_after(rec, "update_position"))
    s_hand = by_id(rec["ev"].get("evaluate:in"))
    s_eval = by_id(rec["ev"].get("evaluate:out"))
    s_pb = by_id(rec["ev"].get("update_particle_best:out") or rec["ev"].get("update_global_best:in"))
    if any(s is None for lst in (s_in, s_vel, s_pos, s_hand, s_eval, s_pb) for s in lst):
        return ("step-phases", head + "the phases of the loop did not all see the selected particles (observed order of calls %r)" % rec["order"])
    for k in range(n):                      # the clamp clause on the observed velocities, before any replay
        for i, (lb, ub) in enumerate(bounds):
            rvv = s_vel[k]["v"]
            if i < len(rvv) and not abs(rvv[i]) <= (ub - lb) / 2.0 * (1 + 1e-12):
                return ("step-velocity-band", head + "particle %d: velocity component %d = %r after update_velocity exceeds half the range (ub-lb)/2 = %r" % (
                    k, i, rvv[i], (ub - lb) / 2.0))
    if rec.get("vel_unmodelled"):
        return "vel-unmodelled"
    for k in range(n):
        x0 = s_in[k]["x"]
        g = rec["draws"][k]["leader"]["x"] if k < len(rec["draws"]) else x0
        res = compare_flight(head, alg, bounds, k, s_in[k], s_vel[k], s_pos[k], g, m_vel[k] if k < len(m_vel) else [], m_pos[k], m_pvel[k], rr)
        if res is not None:
            return res
        rvv, rx = s_vel[k]["v"], s_pos[k]["x"]
        zs = zones_of(x0, rvv, bounds)
        # 3. turbulence: what the evaluator receives
        hx, mt = s_hand[k]["x"], m_turb[k]
        bad = len(hx) != len(mt)
        for i in range(min(len(hx), len(mt), len(bounds))):
            lb, ub = bounds[i]
            hit = hx[i] != rx[i]
            ok = (Fr(hx[i]) == mt[i]) if hit or zs[i] in ("above", "below") else pclose(hx[i], mt[i], bounds[i])
            bad = bad or not ok or not (lb <= hx[i] <= ub)
        if bad:
            return ("step-turbulence", head + "particle %d: position %r after update_position, %r handed to the evaluator (box %r); the model's turbulence "
                    "(copied coordinate or clipped value; particle %s mutated) gives %r" % (
                        k, rx, hx, bounds, "is" if (alg == "OMOPSO" or k % 6 == 0) else "is not", [float(t) for t in mt]))
    if rr["ambiguous"]:
        return "ambiguous"
    if uncovered:
        return ("step-uncovered", head + "velocities, positions and turbulence agree with the model within the comparison band, but the model then "
                "evaluates a position that is further than 1e-9 from every position the run evaluated")
    # 4. evaluation
    m_ev = [e.split(":") for e in f[4].split("#")] if f[4].strip() else []
    for k in range(n):
        e = s_eval[k]
        mvx, msg_, mm = fr_list(m_ev[k][0]), fr_list(m_ev[k][1]), m_ev[k][2]
        nofault = len(rr["by"].get(ids[k], [])) == 1
        okv = len(e["x"]) == len(mvx) and all((Fr(a) == b) if not nofault else pclose(a, b, bounds[i]) for i, (a, b) in enumerate(zip(e["x"], mvx)))
        okc = e["cs"] and [Fr(float(t)) for t in e["cs"][:-1]] == msg_ and str(int(e["cs"][-1])) == mm
        if not okv or not okc:
            return ("step-evaluate", head + "particle %d left the evaluator as vector %r with signed costs %r; the evaluator model gives vector %r, "
                    "signed costs %r, marker %s" % (k, e["x"], e["cs"], [float(t) for t in mvx], [float(t) for t in msg_], mm))
    seg = rr["p"].calls[rec.get("log_start", 0):rec.get("log_end", 0)]
    real_ok = sum(1 for c in seg if c[2] == "o")
    if real_ok != int(f[10]) or len(seg) != int(f[11]):
        return ("step-evals", head + "%d successful / %d objective calls in this iteration, the model makes %s / %s (budget: N = %d per generation)" % (
            real_ok, len(seg), f[10], f[11], cfg["N"]))
    # 5. personal best
    m_pb = [e.split(":") for e in f[5].split("#")] if f[5].strip() else []
    for k in range(n):
        t, e = s_pb[k], s_eval[k]
        mbv, mbc, mbm = fr_list(m_pb[k][0]), fr_list(m_pb[k][1]), m_pb[k][2]
        ok = t["bc"] and [Fr(float(u)) for u in t["bc"][:-1]] == mbc and str(int(t["bc"][-1])) == mbm and t["bv"] is not None and \
            len(t["bv"]) == len(mbv) and all(pclose(a, b, bounds[i]) for i, (a, b) in enumerate(zip(t["bv"], mbv)))
        if not ok:
            dom = e["bc"] and e["cs"] and spec_pareto(e["cs"][:-1], e["bc"][:-1], e["cs"][-1], e["bc"][-1]) == 2
            return ("step-pbest", head + "particle %d: new signed costs %r at %r, old personal best %r at %r (old best dominates the new position: %s); after "
                    "update_particle_best the personal best is %r at %r; the model (replace unless the old best dominates) gives %r at %r" % (
                        k, e["cs"], e["x"], e["bc"], e["bv"], dom, t["bc"], t["bv"], [float(u) for u in mbc] + [mbm], [float(u) for u in mbv]))
    # 6. final order, crowding distances, front numbers
    s_gb = rec["ev"].get("update_global_best:out") or []
    real_order = [ids.index(id(s["obj"])) if id(s["obj"]) in ids else -1 for s in s_gb]
    m_order = [int(t) for t in f[6].split(",")] if f[6].strip() else []
    m_cd = [math.inf if t == "inf" else float(Fr(t)) for t in f[7].split(",")] if f[7].strip() else []
    m_fn = [int(t) for t in f[8].split(",")] if f[8].strip() else []
    if sorted(real_order) != sorted(m_order):
        return ("step-swarm", head + "update_global_best leaves the swarm as the particles %r, the model as %r" % (real_order, m_order))
    if real_order != m_order:
        # a different order of an in-place sort: only possible through tied keys decided differently
        return ("step-order", head + "update_global_best leaves the swarm in the order %r (positions in the selected list), the model's crowding sort in %r" % (
            real_order, m_order))
    for j, s in enumerate(s_gb):
        if not close(float(s["cd"]), m_cd[j]) or (alg == "OMOPSO" and s["fn"] != m_fn[j]):
            return ("step-crowding", head + "particle %d ends with crowding distance %r / front number %r, the model gives %r / %r" % (
                real_order[j], s["cd"], s["fn"], m_cd[j], m_fn[j]))
        if s["x"] != s_eval[real_order[j]]["x"] and not all(pclose(a, b, bounds[i]) for i, (a, b) in enumerate(zip(s["x"], s_eval[real_order[j]]["x"]))):
            return ("step-final-position", head + "particle %d was evaluated at %r but holds the position %r when the generation is recorded "
                    "(the model records the evaluated position)" % (real_order[j], s_eval[real_order[j]]["x"], s["x"]))
    # 7. leaders
    la = rec.get("leaders_after")
    if la is None:
        return ("step-leaders", head + "update_global_best was not observed")
    msg = check_leaders_P([s["obj"] for s in la], cfg["N"])
    if msg:
        return ("step-leaders-invariant", head + msg)
    res = compare_leaders(parse_leaders(f[9]), la)
    if res == "near-tie":
        return "near-tie"
    if res:
        return ("step-leaders", head + "after update_global_best the " + res)
    return None


def check_run(rr, ans):
    cfg, p = rr["cfg"], rr["p"]
    head = "%s %s: " % (cfg["algo"], cfg)
    if not ans.startswith("ok"):
        return ("run-" + ans.split()[0], head + "the real run completed, the composed model (swarmRun) answers %r" % ans)
    f = ans[2:].split("|")
    evals, calls = int(f[0]), int(f[1])
    real_ok = sum(1 for c in p.calls if c[2] == "o")
    if evals != real_ok or calls != len(p.calls):
        return ("run-evals", head + "%d successful / %d objective calls, the model run makes %d / %d (budget N*(G+1) = %d)" % (
            real_ok, len(p.calls), evals, calls, cfg["N"] * (cfg["G"] + 1)))
    recs = [t.split(":") for t in f[2].split(";")] if f[2] else []
    if len(recs) != len(p.individuals):
        return ("run-recorded", head + "%d designs were recorded, the model run records %d" % (len(p.individuals), len(recs)))
    for k, (ind, m) in enumerate(zip(p.individuals, recs)):
        if str(ind.population_id) != m[0]:
            return ("run-tag", head + "recorded design #%d carries generation tag %r, the model run tags it %s" % (k, ind.population_id, m[0]))
        mv = fr_list(m[1])
        if len(mv) != len(ind.vector) or not all(pclose(a, b, cfg["bounds"][i]) for i, (a, b) in enumerate(zip(ind.vector, mv))):
            return ("run-design", head + "recorded design #%d (generation %r) is %r, the model run records %r there" % (
                k, ind.population_id, list(ind.vector), [float(t) for t in mv]))
    gens = f[3].split("~")
    real_gens = [rr["init"]] + rr["recs"]
    if len(gens) != len(real_gens):
        return ("run-generations", head + "%d generations were observed, the model run has %d" % (len(real_gens), len(gens)))
    for g, (t, rec) in enumerate(zip(gens, real_gens)):
        la = rec.get("leaders_after")
        if la is None:
            return ("run-leaders", head + "generation %d: update_global_best was not observed" % g)
        res = compare_leaders(parse_leaders(t), la)
        if res == "near-tie":
            return "near-tie"
        if res:
            return ("run-leaders", head + "generation %d: the " % g + res)
    # personal bests after init_pbest (generation 0) are checked through the first iteration's parents; here the archive
    arch = getattr(rr["a"], "archive", None)
    if cfg["algo"] == "OMOPSO" and arch is not None:
        real = sorted(skey(i.costs_signed) for i in arch._contents)
        model = sorted(skey(c + [m]) for c, m, _ in parse_leaders(f[4]))
        if real != model:
            return ("run-archive", head + "the eps-archive ends with %d members, the model's with %d (different signed-cost sets)" % (len(real), len(model)))
    return None


def check_chain(rr):
    """The iterations of a run hang together: the swarm handed to iteration it+1 is the swarm that iteration it left
    (positions, personal bests), and its leader archive is the one update_global_best left.  With this, the phase-by-phase
    replays of the single iterations cover the whole run, whatever order the code keeps its lists in."""
    cfg = rr["cfg"]
    head = "%s %s: " % (cfg["algo"], cfg)
    prev = rr["init"]
    for it, rec in enumerate(rr["recs"]):
        left = prev["ev"].get("update_global_best:out")
        if left is not None:
            a = sorted((tuple(s["x"]), tuple(s["bv"] or ())) for s in left)
            b = sorted((tuple(s["x"]), tuple(s["bv"] or ())) for s in rec["parents"])
            if a != b:
                return ("run-chain", head + "iteration %d starts from a swarm that is not the swarm the previous generation left "
                        "(positions / personal bests %r, left behind: %r)" % (it, b[:4], a[:4]))
        la = prev.get("leaders_after")
        if la is not None and leader_keys(la) != leader_keys(rec["leaders"]):
            return ("run-chain", head + "iteration %d starts with a leader archive that is not the one update_global_best left" % it)
        prev = rec
    return None


def check_init_pbest(rr):
    """init_pbest: every initial particle's personal best is its own evaluated position (generation 0 of the model)."""
    rec = rr["init"]
    for s in rec["ev"].get("update_global_best:in") or []:
        if s["bc"] is None or skey(s["bc"]) != skey(s["cs"]) or s["bv"] != s["x"]:
            return ("init-pbest", "%s %s: after init_pbest the particle at %r with signed costs %r has personal best %r at %r; the model "
                    "(initPbest) sets its own costs and position" % (rr["cfg"]["algo"], rr["cfg"], s["x"], s["cs"], s["bc"], s["bv"]))
    return None


def swarm_cfgs(ctx):
    rng = ctx.rng
    n = 26 if ctx.quick else 5000
    out = []
    for k in range(n):
        dim = rng.randint(1, 3)
        bk = rng.choice(["dyadic", "unit", "generic", "generic", "tiny", "large"])
        bounds = []
        for _ in range(dim):
            if bk == "dyadic":
                lb = float(rng.randint(-8, 8)) / 4
                bounds.append((lb, lb + rng.choice([0.5, 1.0, 2.0, 4.0])))
            elif bk == "unit":
                bounds.append((0.0, 1.0))
            elif bk == "tiny":
                c = rng.uniform(-2, 2)
                bounds.append((c, c + 1e-6 * rng.uniform(0.5, 2)))
            elif bk == "large":
                bounds.append((-1e6 * rng.uniform(0.5, 2), 1e6 * rng.uniform(0.5, 2)))
            else:
                lb, ub = gen_box(rng)
                bounds.append((lb, ub if ub > lb else lb + 1.0))
        out.append({"algo": RUN_ALGS[k % 2], "N": rng.choice([1, 2, 3, 4, 5, 7, 8] if ctx.quick else [1, 2, 3, 4, 5, 7, 8, 13]),
                    "G": rng.choice([1, 2, 3, 4]), "bounds": bounds, "nobj": rng.choice([1, 2, 2, 2, 3]),
                    "kind": rng.choice(["smooth", "smooth", "constrained"]), "fail_p": rng.choice([0, 0, 0.15, 0.3]),
                    "pm": rng.choice([0.1, 0.5, 1.0]), "seed": rng.randrange(10 ** 6)})
    return out


def check_swarm_runs(ctx, rrs):
    """Replay recorded runs through the Lean model.  Returns the first failure (key, what, cfg) or None."""
    reqs = []
    for rr in rrs:
        s_prepare(rr)
        for it in range(len(rr["recs"])):
            reqs.append(("step", rr, it, step_request(rr, it)))
        reqs.append(("run", rr, None, run_request(rr)))
    answers = ctx.lean([q[3] for q in reqs])
    for (kind, rr, it, _), ans in zip(reqs, answers):
        cfg = rr["cfg"]
        if kind == "step":
            res = check_step(rr, it, ans)
            if res == "near-tie":
                ctx.count("swarm_steps_crowding_near_tie_at_the_leader_cut")
                rr["skip_run"] = True
                continue
            if res == "ambiguous":
                ctx.count("swarm_steps_costs_not_compared_positions_one_ulp_apart")
                rr["skip_run"] = True
                continue
            if res == "vel-unmodelled":
                ctx.count("swarm_steps_velocity_formula_not_the_models_band_checked_only")
                rr["skip_run"] = True
                continue
            if res is not None:
                return res + (cfg,)
            rec = rr["recs"][it]
            if rec.get("vel_fallback"):
                ctx.count("swarm_steps_velocity_formula_not_the_models_replayed_from_observed_velocity")
                rr["skip_run"] = True
            ctx.case(("swarm-step", cfg["algo"], cfg["seed"], cfg["N"], it), nontrivial=True)
            ctx.count("swarm_steps_" + cfg["algo"])
            s_vel = rec["ev"].get("update_velocity:out") or []
            s_pos = rec["ev"].get("update_position:out") or []
            s_hand = rec["ev"].get("evaluate:in") or []
            for sv in s_vel:
                ctx.count("swarm_velocity_components", len(sv["v"]))
                ctx.count("swarm_velocity_components_on_limit",
                          sum(1 for v, (lb, ub) in zip(sv["v"], cfg["bounds"]) if abs(v) == (ub - lb) / 2.0))
            for sp in s_pos:
                ctx.count("swarm_position_coordinates_on_bound", sum(1 for x, (lb, ub) in zip(sp["x"], cfg["bounds"]) if x in (lb, ub)))
            ctx.count("swarm_turbulence_coordinates_mutated",
                      sum(1 for a_, b_ in zip(s_pos, s_hand) for x, y in zip(a_["x"], b_["x"]) if x != y))
            ev, pb = rec["ev"].get("evaluate:out") or [], rec["ev"].get("update_particle_best:out") or []
            kept = sum(1 for a_, b_ in zip(ev, pb) if a_["bc"] and b_["bc"] and skey(a_["bc"]) == skey(b_["bc"]) and skey(b_["bc"]) != skey(a_["cs"]))
            ctx.count("swarm_pbest_kept", kept)
            ctx.count("swarm_pbest_replaced", len(pb) - kept)
            if len(rec["leaders"]) + len(ev) > cfg["N"]:
                ctx.count("swarm_leader_truncations")
        else:
            res = check_init_pbest(rr) or check_chain(rr)
            if res is not None:
                return res + (cfg,)
            if rr.get("skip_run"):
                continue
            res = check_run(rr, ans)
            if res == "near-tie":
                ctx.count("swarm_runs_crowding_near_tie_at_the_leader_cut")
                continue
            if res is not None:
                # Every iteration was replayed phase by phase from its recorded swarm and leaders, and the iterations hang
                # together (check_chain).  The whole-run replay additionally follows the model's own list orders and
                # tie-breaks (order of the swarm after update_global_best, which of equally crowded leaders is cut): an
                # implementation that breaks such ties differently makes it follow other particles.  Not a property clause.
                ctx.count("swarm_runs_whole_run_replay_diverged_" + res[0])
                continue
            faults = sum(1 for c in rr["p"].calls if c[2] != "o")
            ctx.case(("swarm-run", cfg["algo"], cfg["seed"], cfg["N"], cfg["G"]), nontrivial=(cfg["G"] >= 2 or faults > 0),
                     sample={"replayed_swarm_run": {k: v for k, v in cfg.items()}, "objective_calls": len(rr["p"].calls),
                             "failed_calls": faults, "recorded": len(rr["p"].individuals)})
            ctx.count("swarm_runs_" + cfg["algo"])
            ctx.count("swarm_failed_calls", faults)
            ctx.count("swarm_near_bound_decisions_skipped", rr.get("near", 0))
    return None


def psoga_cfgs(ctx):
    out = []
    for cfg in swarm_cfgs(ctx)[:(8 if ctx.quick else 1200)]:
        cfg = dict(cfg, algo="PSOGA", N=max(cfg["N"], 2))
        out.append(cfg)
    return out


def stream_psoga_flight(ctx):
    """PSOGA: update_velocity + update_position of every iteration of real runs against `psogaFlight`; the box, the velocity
    band and the leader invariant on the observed run."""
    rrs = []
    for cfg in psoga_cfgs(ctx):
        rr = record_swarm_or_skip(ctx, cfg)
        if rr is not None:
            s_prepare(rr)
            rrs.append(rr)
    reqs = []
    for rr in rrs:
        for it, rec in enumerate(rr["recs"]):
            offs = rec["ev"].get("update_velocity:in") or []
            reqs.append((rr, it, "c18.psoga %s|%s|%s|%s" % (rr["box"], "#".join(particle_s(s) for s in offs),
                                                          "#".join(particle_s(s) for s in rec["leaders"]), draws_of(rr, rec))))
    answers = ctx.lean([q[2] for q in reqs])
    for (rr, it, _), ans in zip(reqs, answers):
        cfg, rec = rr["cfg"], rr["recs"][it]
        head = "PSOGA %s, iteration it=%d: " % (cfg, it)
        res = None
        offs = rec["ev"].get("update_velocity:in") or []
        s_vel, s_pos = rec["ev"].get("update_velocity:out") or [], rec["ev"].get("update_position:out") or []
        if not ans.startswith("ok"):
            res = ("psoga-raise", head + "update_velocity and update_position completed, the model (psogaFlight) raises (the recorded leader / draws do not fit it)")
        elif not (len(offs) == len(s_vel) == len(s_pos)):
            res = ("psoga-phases", head + "update_velocity / update_position were not both observed on the selected particles (calls %r)" % rec["order"])
        else:
            f = ans[3:].split("|")
            m_vel, m_pos, m_pvel = fr_mat(f[0]), fr_mat(f[1]), fr_mat(f[2])
            if len(m_vel) != len(offs) and any(len(s["x"]) > 0 for s in offs):
                res = ("psoga-size", head + "%d particles were selected, the model has %d" % (len(offs), len(m_vel)))
            for k in range(len(offs)):
                if res is not None:
                    break
                g = rec["draws"][k]["leader"]["x"] if k < len(rec["draws"]) else offs[k]["x"]
                res = compare_flight(head, "PSOGA", cfg["bounds"], k, offs[k], s_vel[k], s_pos[k], g,
                                     m_vel[k] if k < len(m_vel) else [], m_pos[k] if k < len(m_pos) else [], m_pvel[k] if k < len(m_pvel) else [], rr)
        if res is None and it == len(rr["recs"]) - 1:
            cl = run_clauses(rr)
            if cl:
                res = ("psoga-run", "PSOGA %s: %s" % (cfg, cl[0]))
        if res is not None:
            ctx.fail(res[0].replace("step-", "psoga-"), res[1], {"op": "swarmrun", "cfg": cfg, "error": res[1]})
            return True
        ctx.case(("psoga-flight", cfg["seed"], cfg["N"], it), nontrivial=True)
        ctx.count("psoga_flights")
        ctx.count("psoga_velocity_components_on_limit", sum(1 for sv in s_vel for v, (lb, ub) in zip(sv["v"], cfg["bounds"]) if abs(v) == (ub - lb) / 2.0))
        ctx.count("psoga_position_coordinates_on_bound", sum(1 for sp in s_pos for x, (lb, ub) in zip(sp["x"], cfg["bounds"]) if x in (lb, ub)))
        # observation (not a clause of the property): a GA child shares its feature dictionary with the selected particle
        ev, pb = rec["ev"].get("evaluate:out") or [], rec["ev"].get("update_particle_best:out") or []
        for a_, b_ in zip(ev, pb):
            ctx.count("psoga_personal_best_updates_checked")
            if a_["bc"] and b_["bc"] and a_["cs"] and skey(b_["bc"]) not in (skey(a_["bc"]), skey(a_["cs"])):
                ctx.count("psoga_personal_best_overwritten_through_a_shared_feature_dict")
                if dom_cs(a_["bc"], b_["bc"]):
                    ctx.count("psoga_personal_best_overwritten_by_a_position_the_old_best_dominates")
                if PSOGA_SHARED_FEATURES_IS_VIOLATION:
                    ctx.fail("psoga-shared-features", "PSOGA %s, iteration it=%d: update_particle_best replaced the personal best %r of the particle at %r "
                             "(signed costs %r) by %r, which is neither its old best nor its own new position%s (does the particle share its "
                             "feature dictionary with a GA child?)" % (
                                 cfg, it, a_["bc"], a_["x"], a_["cs"], b_["bc"],
                                 " and is dominated by the old best" if dom_cs(a_["bc"], b_["bc"]) else ""), {"op": "psoga-shared", "cfg": cfg})
                    return True
    return False


def record_swarm_or_skip(ctx, cfg):
    try:
        return record_swarm(cfg)
    except RuntimeError as e:
        if cfg["fail_p"] and "failures" in str(e):
            ctx.count("swarm_run_aborted_by_5_failures")
            return None
        raise


def stream_swarm_runs(ctx):
    rrs = []
    for cfg in swarm_cfgs(ctx):
        rr = record_swarm_or_skip(ctx, cfg)
        if rr is not None:
            rrs.append(rr)
    err = check_swarm_runs(ctx, rrs)
    if err is not None:
        key, what, cfg = err
        rr = next(r for r in rrs if r["cfg"] is cfg)
        cl = run_clauses(rr)
        if cl:
            what += " -- clauses of the property violated by the observed run: " + "; ".join(cl[:4])
        ctx.fail(key, what, {"op": "swarmrun", "cfg": cfg, "error": what})
        return True
    return False


# --------------------------------------------------------------------------- entry points

def run(ctx):
    ctx.rule = ("generated swarms for OMOPSO/SMPSO/PSOGA: (new, old-best) cost pairs from small pools with all marker combinations; "
                "velocities and positions inside, on and far outside (1e6..1e12) the box, dyadic values for exact ties with a bound; "
                "sequences of 1-6 generations of synthetic swarms offered to the leader archive with population sizes 1-7, plus real "
                "run()s checked after every generation; non-trivial = comparable or equal cost pair / velocity outside the band / "
                "coordinate leaving the box / truncation that actually cuts an existing leader set; distinct = distinct encoded inputs; "
                "step-by-step: real OMOPSO/SMPSO runs (N 1-8 (13 thorough), G 1-4, 1-3 parameters, 1-3 objectives, dyadic / unit / generic / "
                "1e-6-wide / 1e6-wide boxes, mutation probability 0.1-1, constraint, injected transient failures 0-30%) replayed "
                "iteration by iteration and as whole runs through the composed run model; every replayed iteration and run is a case")
    ctx.assumptions += ["finite floats; velocity/position arithmetic compared with exact rationals within 1e-9 relative, exactly on a bound "
                        "and for untouched values; generated x+v is either exact (dyadic) or further than 1e-9 relative from a bound",
                        "leader archive: costs on a 0.25 grid, 30% of the sequences with nearly tied values (relative gaps 1e-13..1e-9), or as produced by real runs (rounded to 7 decimals), markers are the booleans the code produces",
                        "lb <= ub for every parameter",
                        "step-by-step replay: the model computes positions exactly, the run in doubles; costs of a model position are those the run "
                        "stored for the closest evaluated position within 1e-9 relative; velocity after update_position is not compared on "
                        "coordinates where x+v is within 1e-9 relative of a bound (counted); a leader set that differs only through crowding "
                        "distances tied within rounding at the truncation cut is counted, not reported; in a run that evaluated two different "
                        "positions closer than 1e-12 relative with different stored costs only velocities, positions and turbulence are compared (counted)"]
    import random as _random
    state = _random.getstate()
    _random.seed(ctx.rng.getrandbits(64))      # the code under test draws from the global generator
    try:
        algs = {n: make_alg(n, [(-1.0, 2.0), (0.0, 5.0)]) for n in ALGS}
        for part in (run_pbest, run_clamp, run_position, run_leaders, lambda c, _a: stream_swarm_runs(c), lambda c, _a: stream_psoga_flight(c)):
            if part(ctx, algs):
                return
    finally:
        _random.setstate(state)


def replay(ctx, rp):
    c = rp["case"]
    op = c.get("op")
    if op == "pbest":
        mc, mb = eval(c["mc"]), eval(c["mb"])
        alg = make_alg(c["alg"], [(-1.0, 2.0), (0.0, 5.0)])
        got = impl_pbest(alg, [(c["cur"], mc, c["best"], mb)])[0]
        want = spec_pareto(c["cur"], c["best"], mc, mb) != 2
        print("update_particle_best: best replaced = %s ; property demands replaced = %s (old best dominates new: %s)" % (got, want, not want))
        return got == want
    if op == "clamp":
        from artap.algorithm_swarm import SwarmAlgorithm
        g = SwarmAlgorithm.speed_constriction(c["v"], c["ub"], c["lb"])
        d = (c["ub"] - c["lb"]) / 2.0
        want = min(max(c["v"], -d), d)
        print("speed_constriction = %r ; clamp to +-%r = %r" % (g, d, want))
        return close(g, want)
    if op == "velocity":
        alg = make_alg(c["alg"], [tuple(b) for b in c["bounds"]])
        p = particle(c["x"], [0.0, 0.0], True)
        p.features["best_vector"] = c["best_vector"]
        leader = particle(c["leader"], [0.0, 0.0], True)
        alg.select_leader = lambda: leader
        ok = True
        for _ in range(50):
            alg.update_velocity([p])
            for v, (lb, ub) in zip(p.features["velocity"], c["bounds"]):
                ok = ok and abs(v) <= (ub - lb) / 2.0 * (1 + 1e-12)
        print("velocity after update_velocity (last of 50 draws): %r ; half ranges %r ; within: %s" % (
            p.features["velocity"], [(ub - lb) / 2.0 for lb, ub in c["bounds"]], ok))
        return ok
    if op == "position":
        bounds = [tuple(b) for b in c["bounds"]]
        alg = make_alg(c["alg"], bounds)
        p = particle(c["x"], [0.0, 0.0], True)
        p.features["velocity"] = list(c["v"])
        q = particle(c["x"], [0.0, 0.0], True)
        q.features["velocity"] = list(c["v"])
        alg.update_position([p, q])
        f = FACTOR[c["alg"]]
        ok = True
        for o in (p, q):
            for i, (lb, ub) in enumerate(bounds):
                s = c["x"][i] + c["v"][i]
                wx, wv = (ub, c["v"][i] * f) if s > ub else (lb, c["v"][i] * f) if s < lb else (s, c["v"][i])
                good = close(o.vector[i], wx) and close(o.features["velocity"][i], wv)
                print("coordinate %d: x=%r v=%r -> x=%r v=%r ; demanded x=%r v=%r %s" % (
                    i, c["x"][i], c["v"][i], o.vector[i], o.features["velocity"][i], wx, wv, "" if good else "WRONG"))
                ok = ok and good
        return ok
    if op == "leaders":
        alg = make_alg(c["alg"], [(0.0, 1.0)] * 2, n_obj=c["m"], pop=c["N"])
        ok = True
        for g, gen in enumerate(c["generations"]):
            swarm = []
            for cc, mk, f in gen:
                p = particle([0.5, 0.5], cc, mk)
                p.features["crowding_distance"] = eval(f, {"inf": math.inf})
                swarm.append(p)
            before = leaders_of(alg)
            try:
                alg.update_global_best(swarm)
            except Exception as e:
                print("generation %d: update_global_best raised %s: %s" % (g, type(e).__name__, e))
                return False
            after = leaders_of(alg)
            msg = check_leaders_P(after, c["N"])
            allc = [list(o.costs_signed) for o in before + swarm]
            nd = set(skey(a) for a in allc if not any(dom_cs(b, a) for b in allc))
            if not msg and len(set(map(skey, allc))) == len(allc):
                cand = sorted((o.features["crowding_distance"] for o in before + swarm if skey(o.costs_signed) in nd), reverse=True)
                kept = sorted((o.features["crowding_distance"] for o in after), reverse=True)
                if kept != cand[:c["N"]]:
                    msg = "kept crowding distances %r, the largest of the candidates are %r" % (kept, cand[:c["N"]])
            if not msg and not set(skey(o.costs_signed) for o in after) <= nd:
                msg = "a leader is not in the non-dominated set of (old leaders + swarm)"
            if not msg and len(after) != min(c["N"], len(nd)):
                msg = "%d leaders, expected min(N=%d, %d non-dominated)" % (len(after), c["N"], len(nd))
            print("generation %d: %d leaders (N=%d, non-dominated candidates %d): %s" % (g, len(after), c["N"], len(nd), msg or "ok"))
            ok = ok and not msg
        return ok
    if op == "run":
        import random as _random
        ok = True
        for s in range(20):
            alg = make_alg(c["alg"], [tuple(b) for b in c["bounds"]], pop=c["N"], gens=c["gens"])
            _random.seed(s)
            alg.run()
            msg = check_leaders_P(leaders_of(alg), c["N"])
            ok = ok and not msg
            if msg:
                print("seed %d: %s" % (s, msg))
                break
        print("leader invariant after real runs:", ok)
        return ok
    if op == "psoga-shared":
        cfg = dict(c["cfg"])
        cfg["bounds"] = [tuple(b) for b in cfg["bounds"]]
        rr = record_swarm(cfg)
        n = 0
        for it, rec in enumerate(rr["recs"]):
            ev, pb = rec["ev"].get("evaluate:out") or [], rec["ev"].get("update_particle_best:out") or []
            for a_, b_ in zip(ev, pb):
                if a_["bc"] and b_["bc"] and a_["cs"] and skey(b_["bc"]) not in (skey(a_["bc"]), skey(a_["cs"])):
                    n += 1
                    print("iteration %d: particle at %r with signed costs %r: personal best %r -> %r, neither its old best nor its own position%s" % (
                        it, a_["x"], a_["cs"], a_["bc"], b_["bc"], "; the old best dominates it" if dom_cs(a_["bc"], b_["bc"]) else ""))
        print("PSOGA run %r: %d personal bests replaced by another particle's position" % (cfg, n))
        return n == 0
    if op == "swarmrun":
        cfg = dict(c["cfg"])
        cfg["bounds"] = [tuple(b) for b in cfg["bounds"]]
        rr = record_swarm(cfg)
        s_prepare(rr)
        cl = run_clauses(rr) + [r[1] for r in [check_init_pbest(rr)] if r]
        print("%s run N=%d G=%d on box %r: %d designs recorded, %d objective calls" % (
            cfg["algo"], cfg["N"], cfg["G"], cfg["bounds"], len(rr["p"].individuals), len(rr["p"].calls)))
        for line in cl:
            print("property clause violated:", line)
        if not cl:
            print("no clause of the property is violated by the observed run itself; the recorded disagreement with the composed model was:")
            print(c.get("error"))
        return not cl
    print("nothing to replay:", rp.get("what"))
    return False


def search(ctx):
    """The harness could not drive some entry point: run the remaining parts one by one."""
    algs = {}
    for n in ALGS:
        try:
            algs[n] = make_alg(n, [(-1.0, 2.0), (0.0, 5.0)])
        except Exception:
            return False
    before = len(ctx.failures)
    for part in (run_pbest, run_clamp, run_position, run_leaders):
        try:
            if part(ctx, algs):
                return True
        except Exception:
            continue
    return len(ctx.failures) > before
