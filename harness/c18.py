"""C18 — swarm invariants: personal best, velocity clamp, position update, leader archive.

Correspondence: the public update methods of the real OMOPSO / SMPSO / PSOGA objects
(`update_particle_best`, `speed_constriction`, `update_velocity`, `update_position`, `update_global_best`, `run`)
driven in-process on generated swarms, against `Artap.Swarm.*` (Lean model; Props/C18.lean).

* personal best: which particles had their best replaced (R1, phi-encoded costs, exact);
* clamp: `speed_constriction(v, ub, lb)` against the rational model (R2), and the envelope |v_i| <= (ub_i-lb_i)/2
  after `update_velocity` with `select_leader` stubbed (the random draws are free: the clamp theorem quantifies
  over the raw velocity);
* position: every coordinate and velocity component after `update_position` (exact on the bound);
* leaders: after every `update_global_best` (synthetic generations and inside real `run()`s) the leader archive
  has at most N members, mutually non-dominated, drawn from the non-dominated set of (old leaders + swarm),
  of the size and with the feature values the model's `generation` gives.
"""
import math
import os

from .common import phi, rat, unrat, vec, mat, close
from .c01 import spec_pareto
from .c04 import phix

ALGS = ["OMOPSO", "SMPSO", "PSOGA"]
MARKERS = [0, 1, True, False, 0.5, -0.5, 2, -1, 0.0, 3.25]
FACTOR = {"OMOPSO": -1.0, "PSOGA": -1.0, "SMPSO": 0.001}


# --------------------------------------------------------------------------- implementation adaptor

def make_alg(name, bounds, n_obj=2, pop=8, gens=3, constrained=False):
    from artap.problem import Problem
    import artap.algorithm_swarm as sw

    class VerifProblem(Problem):
        def set(self):
            self.name = "verif-c18"
            self.parameters = [{"name": "x%d" % i, "bounds": [lb, ub]} for i, (lb, ub) in enumerate(bounds)]
            self.costs = [{"name": "f%d" % i, "criteria": "minimize"} for i in range(n_obj)]

        def evaluate(self, individual):
            x = individual.vector
            d = len(x)
            f1 = sum((x[i] - bounds[i][0]) ** 2 for i in range(d))
            f2 = sum((x[i] - bounds[i][1]) ** 2 for i in range(d))
            out = [f1, f2] + [abs(x[0]) + k for k in range(n_obj - 2)]
            return out[:n_obj]

        def evaluate_inequality_constraints(self, vector):
            if not constrained:
                return []
            return [vector[0] - (bounds[0][0] + bounds[0][1]) / 2.0]

    problem = VerifProblem()
    # Problem.__init__ makes /tmp/artap-<name>-<time>/ and registers an atexit rmtree; nothing is written there by
    # these checks, so drop it right away (several problems of one second share the directory)
    wd, problem.working_dir = problem.working_dir, ""
    try:
        os.rmdir(wd)
    except OSError:
        pass
    alg = getattr(sw, name)(problem)
    alg.options["max_population_size"] = pop
    alg.options["max_population_number"] = gens
    alg.options["max_processes"] = 1
    return alg


def particle(vector, costs=None, marker=True, k=None):
    from artap.algorithm_swarm import IndividualSwarm
    p = IndividualSwarm(list(vector))
    if costs is not None:
        p.costs = list(costs)
        p.costs_signed = list(costs) + [marker]
    if k is not None:
        p.custom["k"] = k
    return p


def skey(costs_signed):
    return tuple(phix(v) for v in costs_signed)


def dom_cs(a, b):
    return spec_pareto(a[:-1], b[:-1], a[-1], b[-1]) == 1


# --------------------------------------------------------------------------- personal best

def gen_pbest(rng, m):
    pool = [float(v) for v in range(3)] if rng.random() < 0.5 else [rng.uniform(-5, 5) for _ in range(3)] + [0.0, -0.0, 1e300]
    best = [rng.choice(pool) for _ in range(m)]
    r = rng.random()
    if r < 0.2:
        cur = list(best)
    elif r < 0.45:
        cur = [b + rng.choice([0, 0, 1, 0.5]) for b in best]       # dominated by the old best (or equal)
    elif r < 0.7:
        cur = [b - rng.choice([0, 0, 1, 0.5]) for b in best]       # dominates the old best (or equal)
    else:
        cur = [rng.choice(pool) for _ in range(m)]
    mb = rng.choice(MARKERS)
    mc = mb if rng.random() < 0.6 else rng.choice(MARKERS)
    return cur, mc, best, mb


def impl_pbest(alg, cases):
    """cases: (cur, mc, best, mb) -> list of bool 'best replaced' (None when the two observables disagree)"""
    pop = []
    for i, (cur, mc, best, mb) in enumerate(cases):
        p = particle([float(i), 1.0], cur, mc)
        p.features["best_cost"] = list(best) + [mb]
        p.features["best_vector"] = [-1.0 - i, -7.0]
        pop.append(p)
    alg.update_particle_best(pop)
    out = []
    for i, p in enumerate(pop):
        by_vec = list(p.features["best_vector"]) == [float(i), 1.0]
        kept_vec = list(p.features["best_vector"]) == [-1.0 - i, -7.0]
        cur, mc, best, mb = cases[i]
        bc = p.features["best_cost"]
        is_cur, is_old = skey(bc) == skey(list(cur) + [mc]), skey(bc) == skey(list(best) + [mb])
        if by_vec and is_cur:
            out.append(True)
        elif kept_vec and is_old:
            out.append(False)
        else:
            out.append(None)
    return out


def run_pbest(ctx, algs):
    rng = ctx.rng
    n = 1500 if ctx.quick else 30000
    for name in ALGS:
        cases = [gen_pbest(rng, rng.randint(1, 4)) for _ in range(n)]
        got = impl_pbest(algs[name], cases)
        ans = ctx.lean(["c18.pbest %s|%s|%d,%d" % (vec(c[0], lambda x: str(phi(x))), vec(c[2], lambda x: str(phi(x))),
                                                   phi(c[1]), phi(c[3])) for c in cases])
        for c, g, a in zip(cases, got, ans):
            cur, mc, best, mb = c
            v = spec_pareto(cur, best, mc, mb)
            ctx.case(("pbest", name, skey(cur + [mc]), skey(best + [mb])), v != 0 or cur == best,
                     sample={"op": "pbest", "alg": name, "cur": cur + [repr(mc)], "best": best + [repr(mb)], "replaced": g})
            ctx.count("pbest_verdict_%d" % v)
            want = a == "1"
            if g is None or g != want:
                rel = {1: "the new position dominates the old best", 2: "the old best dominates the new position",
                       0: "neither dominates"}[v]
                ctx.fail("pbest-update", "%s.update_particle_best: new costs %r, old best %r (%s): best %s; the property demands %s" % (
                    name, cur + [mc], best + [mb], rel,
                    "inconsistent (best_cost and best_vector disagree)" if g is None else ("replaced" if g else "kept"),
                    "replaced" if want else "kept"),
                    {"op": "pbest", "alg": name, "cur": cur, "mc": repr(mc), "best": best, "mb": repr(mb)})
                return True
    return False


# --------------------------------------------------------------------------- velocity

def gen_box(rng):
    r = rng.random()
    if r < 0.25:
        lb = float(rng.randint(-4, 4))
        ub = lb + rng.choice([1.0, 2.0, 0.5, 8.0])
    elif r < 0.35:
        lb = rng.uniform(-3, 3)
        ub = lb                       # degenerate box
    else:
        s = 10 ** rng.uniform(-3, 4)
        lb = rng.uniform(-s, s)
        ub = lb + rng.uniform(0.01, 2) * s
    return lb, ub


def run_clamp(ctx, algs):
    rng = ctx.rng
    from artap.algorithm_swarm import SwarmAlgorithm
    fn = getattr(SwarmAlgorithm, "speed_constriction", None)
    n = 3000 if ctx.quick else 60000
    if fn is None:
        ctx.count("speed_constriction_absent")
    else:
        cases = []
        for _ in range(n):
            lb, ub = gen_box(rng)
            d = (ub - lb) / 2.0
            r = rng.random()
            if r < 0.3:
                v = rng.uniform(-d, d)
            elif r < 0.4:
                v = rng.choice([d, -d, 0.0, -0.0])
            elif r < 0.7:
                v = rng.choice([-1, 1]) * d * rng.uniform(1.001, 5) + rng.choice([-1, 1]) * 1e-3
            else:
                v = rng.choice([-1, 1]) * 10 ** rng.uniform(0, 8)
            cases.append((v, ub, lb))
        got = [fn(*c) for c in cases]
        ans = ctx.lean(["c18.clamp %s" % vec(c, rat) for c in cases])
        for c, g, a in zip(cases, got, ans):
            v, ub, lb = c
            want = float(unrat(a))
            d = (ub - lb) / 2.0
            zone = "inside" if abs(v) <= d else "above" if v > d else "below"
            ctx.case(("clamp", c), zone != "inside", sample={"op": "clamp", "v": v, "ub": ub, "lb": lb, "out": g})
            ctx.count("clamp_" + zone)
            ok = close(float(g), want) and (float(g) == v if unrat(a) == unrat(rat(v)) else True)
            if not ok:
                ctx.fail("velocity-clamp", "speed_constriction(v=%r, ub=%r, lb=%r) = %r; the clamp to +-(ub-lb)/2 = +-%r gives %r" % (
                    v, ub, lb, g, d, want), {"op": "clamp", "v": v, "ub": ub, "lb": lb})
                return True
    # envelope after update_velocity (select_leader stubbed; the draws inside are free)
    n_sw = 120 if ctx.quick else 2500
    for name in ALGS:
        for _ in range(n_sw):
            dim = rng.randint(1, 4)
            bounds = [gen_box(rng) for _ in range(dim)]
            bounds = [(lb, ub if ub > lb else lb + 1.0) for lb, ub in bounds]
            alg = make_alg(name, bounds)
            far = rng.random() < 0.5
            pop = []
            for k in range(rng.randint(1, 4)):
                scale = 1e6 if far and rng.random() < 0.7 else 1.0
                x = [rng.uniform(lb, ub) + rng.choice([0, 0, -1, 1]) * scale * rng.uniform(0.5, 2) for lb, ub in bounds]
                p = particle(x, [0.0, 0.0], True)
                p.features["best_vector"] = [rng.uniform(lb, ub) + rng.choice([0, 0, -1, 1]) * scale for lb, ub in bounds]
                p.features["velocity"] = [rng.uniform(-1, 1) * scale * 10 for _ in bounds]
                pop.append(p)
            leader = particle([rng.uniform(lb, ub) + rng.choice([0, 0, -1, 1]) * (1e6 if far else 1.0) for lb, ub in bounds], [0.0, 0.0], True)
            alg.select_leader = lambda leader=leader: leader
            alg.update_velocity(pop)
            for p in pop:
                vel = list(p.features["velocity"])
                hit = 0
                bad = len(vel) != dim
                for i, (lb, ub) in enumerate(bounds):
                    if bad:
                        break
                    d = (ub - lb) / 2.0
                    if not (abs(vel[i]) <= d * (1 + 1e-12)):
                        bad = True
                    if close(abs(vel[i]), d):
                        hit += 1
                ctx.case(("vel", name, tuple(p.vector), tuple(bounds)), hit > 0)
                ctx.count("velocity_components_on_limit", hit)
                ctx.count("velocity_components", dim)
                if bad:
                    ctx.fail("velocity-envelope", "%s.update_velocity: particle at %r in box %r got velocity %r, outside +-half the parameter range %r" % (
                        name, p.vector, bounds, vel, [(ub - lb) / 2.0 for lb, ub in bounds]),
                        {"op": "velocity", "alg": name, "bounds": bounds, "x": list(p.vector), "best_vector": list(p.features["best_vector"]),
                         "leader": list(leader.vector)})
                    return True
    return False


# --------------------------------------------------------------------------- position

def gen_pos(rng, lb, ub, exact):
    w = ub - lb
    if exact:      # dyadic values: x + v is computed exactly, so ties with a bound are decided exactly
        q = 64.0
        x = math.floor(rng.uniform(lb - w, ub + w) * q) / q
        r = rng.random()
        if r < 0.3:
            v = ub - x
        elif r < 0.5:
            v = lb - x
        else:
            v = math.floor(rng.uniform(-2 * w - 1, 2 * w + 1) * q) / q
        return x, v
    r = rng.random()
    x = rng.uniform(lb, ub) if r < 0.7 else rng.uniform(lb - 3 * w - 1, ub + 3 * w + 1)
    r = rng.random()
    if r < 0.4:
        v = rng.uniform(-w, w) / 2
    elif r < 0.8:
        v = rng.uniform(-3 * w - 1, 3 * w + 1)
    else:
        v = rng.choice([-1, 1]) * 10 ** rng.uniform(2, 12)
    return x, v


def run_position(ctx, algs):
    rng = ctx.rng
    n = 250 if ctx.quick else 6000
    for name in ALGS:
        reqs, meta = [], []
        for _ in range(n):
            dim = rng.randint(1, 5)
            exact = rng.random() < 0.4
            if exact:
                bounds = []
                for _ in range(dim):
                    lb = float(rng.randint(-8, 8)) / 4
                    bounds.append((lb, lb + rng.choice([0.25, 1.0, 2.0, 0.0, 16.0])))
            else:
                bounds = [gen_box(rng) for _ in range(dim)]
            xs, vs = [], []
            for lb, ub in bounds:
                x, v = gen_pos(rng, lb, ub, exact)
                s = x + v
                if not exact and any(abs(s - b) <= 1e-9 * max(abs(s), abs(b), abs(x), abs(v)) for b in (lb, ub)):
                    v = v * 2 + 1.0     # keep the decision away from rounding distance of a bound
                xs.append(x)
                vs.append(v)
            alg = make_alg(name, bounds)
            p = particle(xs, [0.0, 0.0], True)
            p.features["velocity"] = list(vs)
            q = particle(xs, [0.0, 0.0], True)       # a second particle: the loop must treat every particle
            q.features["velocity"] = list(vs)
            alg.update_position([p, q])
            reqs.append("c18.pos %s|%s|%s|%s|%s" % (name, vec(xs, rat), vec(vs, rat), vec([b[0] for b in bounds], rat),
                                                    vec([b[1] for b in bounds], rat)))
            meta.append((bounds, xs, vs, [(list(o.vector), list(o.features["velocity"])) for o in (p, q)], exact))
        ans = ctx.lean(reqs)
        for (bounds, xs, vs, outs, exact), a in zip(meta, ans):
            mx, mv = [[unrat(t) for t in part.split(",")] for part in a.split("|")]
            zones = []
            for i, (lb, ub) in enumerate(bounds):
                s = unrat(rat(xs[i])) + unrat(rat(vs[i]))
                zones.append("above" if s > unrat(rat(ub)) else "below" if s < unrat(rat(lb)) else
                             "on-bound" if s in (unrat(rat(ub)), unrat(rat(lb))) else "inside")
            for z in zones:
                ctx.count("position_" + z)
            ctx.case(("pos", name, tuple(xs), tuple(vs), tuple(bounds)), any(z != "inside" for z in zones),
                     sample={"op": "position", "alg": name, "bounds": bounds, "x": xs, "v": vs, "x_after": outs[0][0], "v_after": outs[0][1]})
            for which, (ox, ov) in enumerate(outs):
                for i, (lb, ub) in enumerate(bounds):
                    z = zones[i]
                    wantx, wantv = float(mx[i]), float(mv[i])
                    okx = (ox[i] == wantx) if z in ("above", "below") or exact else close(ox[i], wantx)
                    okv = close(ov[i], wantv) if z in ("above", "below") else ov[i] == vs[i]
                    if len(ox) != len(bounds) or not okx or not okv:
                        ctx.fail("position-update", "%s.update_position (particle %d): coordinate %d x=%r v=%r box [%r, %r] (x+v %s) became x=%r v=%r; "
                                 "the property demands x=%r v=%r (%s)" % (name, which, i, xs[i], vs[i], lb, ub, z, ox[i], ov[i], wantx, wantv,
                                                                         "velocity reversed" if FACTOR[name] < 0 else "velocity damped by 0.001"),
                                 {"op": "position", "alg": name, "bounds": bounds, "x": xs, "v": vs})
                        return True
    return False


# --------------------------------------------------------------------------- leaders

def leaders_of(alg):
    return list(alg.leaders)


def check_leaders_P(leaders, n):
    """property predicate on the implementation's leader archive: bounded, mutually non-dominated, no duplicates"""
    if len(leaders) > n:
        return "the leader archive has %d members, more than the population size %d" % (len(leaders), n)
    cs = [list(l.costs_signed) for l in leaders]
    for i in range(len(cs)):
        for j in range(len(cs)):
            if i != j and dom_cs(cs[i], cs[j]):
                return "leader %r dominates leader %r" % (cs[i], cs[j])
            if i < j and skey(cs[i]) == skey(cs[j]):
                return "two leaders carry the same signed-cost vector %r" % (cs[i],)
    return None


def gen_swarm(rng, size, m, dup_rate, infeasible_rate, near=False):
    """cost vectors on a 0.25 grid (bit-identical or well separated); with `near` some coordinates are moved by a relative
    gap k*1e-13, k in 1..10^4 (nearly tied but different: hundreds to millions of ulps, so exact arithmetic decides)"""
    def nudge(v):
        if near and rng.random() < 0.4:
            return v * (1 + int(10 ** rng.uniform(0, 4)) * 1e-13 * rng.choice([-1, 1]))
        return v
    out = []
    span = rng.choice([3, 6, 12])
    for _ in range(size):
        if out and rng.random() < dup_rate:
            c, mk = rng.choice(out)
            out.append((list(c), mk))
            continue
        if rng.random() < 0.5 and m >= 2:     # near a front
            a = rng.randint(0, span)
            c = [a * 0.25, (span - a) * 0.25 + rng.choice([0, 0, 0.25, 0.5])] + [rng.randint(0, 2) * 0.25 for _ in range(m - 2)]
        else:
            c = [rng.randint(0, span) * 0.25 for _ in range(m)]
        out.append(([nudge(v) for v in c], (rng.random() < infeasible_rate)))
    return out


def run_leaders(ctx, algs):
    rng = ctx.rng
    n_seq = 50 if ctx.quick else 900
    pending = []
    for name in ALGS:
        for _ in range(n_seq):
            N = rng.randint(1, 7)
            m = rng.choice([2, 2, 3])
            dup_rate = rng.choice([0.0, 0.0, 0.0, 0.15])
            inf_rate = rng.choice([0.0, 0.0, 0.3])
            alg = make_alg(name, [(0.0, 1.0)] * 2, n_obj=m, pop=N)
            near = rng.random() < 0.3
            ctx.count("leaders_sequences_with_near_ties" if near else "leaders_sequences_grid")
            counter = [0]
            history = []          # for the replay: swarms as offered, generation by generation
            for g in range(rng.randint(1, 6)):
                spec = gen_swarm(rng, rng.randint(1, 10), m, dup_rate, inf_rate, near)
                swarm = []
                for c, mk in spec:
                    p = particle([0.5, 0.5], c, mk, k=counter[0])
                    p.features["crowding_distance"] = rng.choice([0.0, 0.5, 1.0, 2.0, math.inf])   # used by OMOPSO as it stands
                    counter[0] += 1
                    swarm.append(p)
                history.append([(c, mk, p.features["crowding_distance"]) for (c, mk), p in zip(spec, swarm)])
                before = leaders_of(alg)
                case = {"op": "leaders", "alg": name, "N": N, "m": m, "generations": [[[list(c), bool(mk), repr(f)] for c, mk, f in gen] for gen in history]}
                try:
                    alg.update_global_best(swarm)
                except (IndexError, ZeroDivisionError) as e:
                    ctx.fail("leaders-raise", "%s.update_global_best, generation %d, population size %d raised %s: %s (the leader archive "
                             "model cannot raise)" % (name, g, N, type(e).__name__, e), case)
                    return True
                after = leaders_of(alg)
                msg = check_leaders_P(after, N)
                if msg:
                    ctx.fail("leaders-invariant", "%s.update_global_best, generation %d, population size %d: %s" % (name, g, N, msg), case)
                    return True
                # model: old leaders (order as held) then the swarm as it stands after the call
                feat = lambda o: phix(o.features["crowding_distance"])
                offered = list(swarm)
                allobj = before + offered
                req = "c18.gen %s|%s|%s|%s|%s|%s|%s|%d" % (
                    vec([0.1, 0.1], rat),
                    mat([o.costs_signed[:-1] for o in before], rat), vec([o.costs_signed[-1] for o in before], lambda x: str(phi(x))),
                    vec(before, lambda o: str(feat(o))),
                    mat([o.costs_signed[:-1] for o in offered], rat), vec([o.costs_signed[-1] for o in offered], lambda x: str(phi(x))),
                    vec(offered, lambda o: str(feat(o))), N)
                pending.append((req, name, g, N, case, [list(o.costs_signed) for o in allobj], [feat(o) for o in allobj],
                                [o.features["crowding_distance"] for o in allobj], len(before),
                                [{id(o): i for i, o in enumerate(allobj)}.get(id(o), -1) for o in after], [c for c, _ in spec]))
    answers = ctx.lean([p[0] for p in pending])
    for (req, name, g, N, case, costs, feats, cds, nbefore, after_ix, spec_costs), a in zip(pending, answers):
        if a == "raise":
            ctx.fail("leaders-model-raise", "model raised on a generation the code accepted", case)
            return True
        _, pre, post = a.split("|")
        pre = [int(t) for t in pre.split(",")] if pre else []
        post = [int(t) for t in post.split(",")] if post else []
        keys_all = [skey(c) for c in costs]
        prekeys = set(keys_all[i] for i in pre)
        has_dup = len(set(keys_all)) != len(keys_all)
        cut = len(pre) > N
        ctx.case(("leaders", name, N, tuple(keys_all), tuple(feats)), cut and nbefore > 0,
                 sample={"op": "leaders", "alg": name, "N": N, "leaders_before": [list(map(float, c[:-1])) for c in costs[:nbefore]][:6],
                         "swarm": spec_costs[:8], "leaders_after": len(after_ix)})
        ctx.count("leaders_truncation_cuts" if cut else "leaders_truncation_keeps_all")
        ctx.count("leaders_gen_with_duplicates" if has_dup else "leaders_gen_without_duplicates")
        bad = None
        if -1 in after_ix or not set(keys_all[i] for i in after_ix) <= prekeys:
            bad = "a leader is not in the non-dominated set of (old leaders + swarm)"
        elif len(after_ix) != len(post):
            bad = "%d leaders kept, the non-dominated set has %d members and the population size is %d" % (len(after_ix), len(pre), N)
        elif not has_dup and sorted(feats[i] for i in after_ix) != sorted(feats[i] for i in post):
            bad = "kept crowding distances %r, the %d largest of the non-dominated set are %r" % (
                sorted(cds[i] for i in after_ix), N, sorted(cds[i] for i in post))
        if bad:
            ctx.fail("leaders-generation", "%s.update_global_best, generation %d, population size %d: %s" % (name, g, N, bad), case)
            return True
    # real runs: the invariant after every generation
    n_runs = 6 if ctx.quick else 60
    for name in ALGS:
        for _ in range(n_runs):
            N = rng.randint(2, 10)
            dim = rng.randint(1, 3)
            bounds = [(lb, ub if ub > lb else lb + 1.0) for lb, ub in (gen_box(rng) for _ in range(dim))]
            gens = rng.randint(1, 6)
            alg = make_alg(name, bounds, n_obj=2, pop=N, gens=gens, constrained=rng.random() < 0.3)
            seen = []
            orig = alg.update_global_best

            def wrapped(swarm, orig=orig, alg=alg, seen=seen, N=N):
                r = orig(swarm)
                seen.append(check_leaders_P(leaders_of(alg), N))
                return r
            alg.update_global_best = wrapped
            import random as _random
            st = _random.getstate()
            _random.seed(rng.getrandbits(32))
            try:
                alg.run()
            finally:
                _random.setstate(st)
            ctx.case(("run", name, N, dim, gens, tuple(bounds)), len(seen) >= 2)
            ctx.count("real_run_generations", len(seen))
            bad = [s for s in seen if s]
            if bad or len(seen) == 0:
                ctx.fail("leaders-run", "%s.run() with population size %d on box %r: %s" % (
                    name, N, bounds, bad[0] if bad else "update_global_best was never called"),
                    {"op": "run", "alg": name, "N": N, "bounds": bounds, "gens": gens})
                return True
    return False


# --------------------------------------------------------------------------- entry points

def run(ctx):
    ctx.rule = ("generated swarms for OMOPSO/SMPSO/PSOGA: (new, old-best) cost pairs from small pools with all marker combinations; "
                "velocities and positions inside, on and far outside (1e6..1e12) the box, dyadic values for exact ties with a bound; "
                "sequences of 1-6 generations of synthetic swarms offered to the leader archive with population sizes 1-7, plus real "
                "run()s checked after every generation; non-trivial = comparable or equal cost pair / velocity outside the band / "
                "coordinate leaving the box / truncation that actually cuts an existing leader set; distinct = distinct encoded inputs")
    ctx.assumptions += ["finite floats; velocity/position arithmetic compared with exact rationals within 1e-9 relative, exactly on a bound "
                        "and for untouched values; generated x+v is either exact (dyadic) or further than 1e-9 relative from a bound",
                        "leader archive: costs on a 0.25 grid, 30% of the sequences with nearly tied values (relative gaps 1e-13..1e-9), or as produced by real runs (rounded to 7 decimals), markers are the booleans the code produces",
                        "lb <= ub for every parameter"]
    import random as _random
    state = _random.getstate()
    _random.seed(ctx.rng.getrandbits(64))      # the code under test draws from the global generator
    try:
        algs = {n: make_alg(n, [(-1.0, 2.0), (0.0, 5.0)]) for n in ALGS}
        for part in (run_pbest, run_clamp, run_position, run_leaders):
            if part(ctx, algs):
                return
    finally:
        _random.setstate(state)


def replay(ctx, rp):
    c = rp["case"]
    op = c.get("op")
    if op == "pbest":
        mc, mb = eval(c["mc"]), eval(c["mb"])
        alg = make_alg(c["alg"], [(-1.0, 2.0), (0.0, 5.0)])
        got = impl_pbest(alg, [(c["cur"], mc, c["best"], mb)])[0]
        want = spec_pareto(c["cur"], c["best"], mc, mb) != 2
        print("update_particle_best: best replaced = %s ; property demands replaced = %s (old best dominates new: %s)" % (got, want, not want))
        return got == want
    if op == "clamp":
        from artap.algorithm_swarm import SwarmAlgorithm
        g = SwarmAlgorithm.speed_constriction(c["v"], c["ub"], c["lb"])
        d = (c["ub"] - c["lb"]) / 2.0
        want = min(max(c["v"], -d), d)
        print("speed_constriction = %r ; clamp to +-%r = %r" % (g, d, want))
        return close(g, want)
    if op == "velocity":
        alg = make_alg(c["alg"], [tuple(b) for b in c["bounds"]])
        p = particle(c["x"], [0.0, 0.0], True)
        p.features["best_vector"] = c["best_vector"]
        leader = particle(c["leader"], [0.0, 0.0], True)
        alg.select_leader = lambda: leader
        ok = True
        for _ in range(50):
            alg.update_velocity([p])
            for v, (lb, ub) in zip(p.features["velocity"], c["bounds"]):
                ok = ok and abs(v) <= (ub - lb) / 2.0 * (1 + 1e-12)
        print("velocity after update_velocity (last of 50 draws): %r ; half ranges %r ; within: %s" % (
            p.features["velocity"], [(ub - lb) / 2.0 for lb, ub in c["bounds"]], ok))
        return ok
    if op == "position":
        bounds = [tuple(b) for b in c["bounds"]]
        alg = make_alg(c["alg"], bounds)
        p = particle(c["x"], [0.0, 0.0], True)
        p.features["velocity"] = list(c["v"])
        q = particle(c["x"], [0.0, 0.0], True)
        q.features["velocity"] = list(c["v"])
        alg.update_position([p, q])
        f = FACTOR[c["alg"]]
        ok = True
        for o in (p, q):
            for i, (lb, ub) in enumerate(bounds):
                s = c["x"][i] + c["v"][i]
                wx, wv = (ub, c["v"][i] * f) if s > ub else (lb, c["v"][i] * f) if s < lb else (s, c["v"][i])
                good = close(o.vector[i], wx) and close(o.features["velocity"][i], wv)
                print("coordinate %d: x=%r v=%r -> x=%r v=%r ; demanded x=%r v=%r %s" % (
                    i, c["x"][i], c["v"][i], o.vector[i], o.features["velocity"][i], wx, wv, "" if good else "WRONG"))
                ok = ok and good
        return ok
    if op == "leaders":
        alg = make_alg(c["alg"], [(0.0, 1.0)] * 2, n_obj=c["m"], pop=c["N"])
        ok = True
        for g, gen in enumerate(c["generations"]):
            swarm = []
            for cc, mk, f in gen:
                p = particle([0.5, 0.5], cc, mk)
                p.features["crowding_distance"] = eval(f, {"inf": math.inf})
                swarm.append(p)
            before = leaders_of(alg)
            try:
                alg.update_global_best(swarm)
            except Exception as e:
                print("generation %d: update_global_best raised %s: %s" % (g, type(e).__name__, e))
                return False
            after = leaders_of(alg)
            msg = check_leaders_P(after, c["N"])
            allc = [list(o.costs_signed) for o in before + swarm]
            nd = set(skey(a) for a in allc if not any(dom_cs(b, a) for b in allc))
            if not msg and len(set(map(skey, allc))) == len(allc):
                cand = sorted((o.features["crowding_distance"] for o in before + swarm if skey(o.costs_signed) in nd), reverse=True)
                kept = sorted((o.features["crowding_distance"] for o in after), reverse=True)
                if kept != cand[:c["N"]]:
                    msg = "kept crowding distances %r, the largest of the candidates are %r" % (kept, cand[:c["N"]])
            if not msg and not set(skey(o.costs_signed) for o in after) <= nd:
                msg = "a leader is not in the non-dominated set of (old leaders + swarm)"
            if not msg and len(after) != min(c["N"], len(nd)):
                msg = "%d leaders, expected min(N=%d, %d non-dominated)" % (len(after), c["N"], len(nd))
            print("generation %d: %d leaders (N=%d, non-dominated candidates %d): %s" % (g, len(after), c["N"], len(nd), msg or "ok"))
            ok = ok and not msg
        return ok
    if op == "run":
        import random as _random
        ok = True
        for s in range(20):
            alg = make_alg(c["alg"], [tuple(b) for b in c["bounds"]], pop=c["N"], gens=c["gens"])
            _random.seed(s)
            alg.run()
            msg = check_leaders_P(leaders_of(alg), c["N"])
            ok = ok and not msg
            if msg:
                print("seed %d: %s" % (s, msg))
                break
        print("leader invariant after real runs:", ok)
        return ok
    print("nothing to replay:", rp.get("what"))
    return False


def search(ctx):
    """The harness could not drive some entry point: run the remaining parts one by one."""
    algs = {}
    for n in ALGS:
        try:
            algs[n] = make_alg(n, [(-1.0, 2.0), (0.0, 5.0)])
        except Exception:
            return False
    before = len(ctx.failures)
    for part in (run_pbest, run_clamp, run_position, run_leaders):
        try:
            if part(ctx, algs):
                return True
        except Exception:
            continue
    return len(ctx.failures) > before
