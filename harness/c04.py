"""C04 — Archive holds exactly the non-dominated set of everything ever offered.

Correspondence: the real `artap.archive.Archive` (add after add, then truncate) driven in-process with the
Pareto and the epsilon comparator, against `Artap.Archive.trace` / `truncate` (Lean model, proved in
Props/C04.lean to yield the non-dominated set of the history, one representative per signed-cost vector).
Observables: the boolean returned by every `add`, the *set* of signed-cost vectors held after every step
(order and object identity ignored, duplicates counted), after `truncate` the multiset of kept feature
values.  Regime R1 for Pareto (doubles through phi, exact), R2-exact for epsilon (exact rationals; the cost
values are bit-identical or at least 1e-14 relative apart - including a stream of nearly tied values with gaps
1e-13..1e-9 - so the scaled comparisons are decided as in exact arithmetic).
"""
import itertools
import math
import struct

from .common import rat, vec, mat, shrink_list
from .c01 import spec_pareto

MARKERS_P = [0, 1, True, False, 0.5, -0.5, 2, -1, 0.0, -0.0, 3.25]
MARKERS_E = [0, 1, True, False, 0.5, 2, 0.0, 3.25]          # code produces `not feasible` (bool): non-negative
SPECIAL = [0.0, -0.0, 5e-324, -5e-324, 1e300, -1e300, 1.0, -1.0, 1.0 + 2 ** -52]
FEATS = [0.0, 0.0, 1.0, 1.0, 0.5, 2.0, math.inf, math.inf, -1.0, 1e-3]


def phix(x):
    """Order embedding double -> int that also takes +-inf (crowding distances)."""
    x = float(x)
    if x != x:
        raise ValueError("nan")
    b = struct.unpack("<q", struct.pack("<d", x))[0]
    return b if b >= 0 else -(b & 0x7FFFFFFFFFFFFFFF)


def key(ind):
    """canonical signed-cost vector of an offered solution (costs, marker)"""
    c, m, _ = ind
    return tuple(phix(v) for v in c) + (phix(m),)


# --------------------------------------------------------------------------- implementation adaptor

SHARED_EPS = [[0.1], [0.5, 2.0], [1.0, 0.01, 3.0], [0.05, 0.05], [1e-3, 7.0]]
_comparators = {}


def make_archive(kind, eps):
    """Comparator objects are long-lived: one ParetoDominance and one EpsilonDominance per epsilon vector serve every
    history of the run (histories differ in their number of objectives), as a comparator serves a whole optimisation."""
    from artap.archive import Archive
    from artap.operators import ParetoDominance, EpsilonDominance
    if kind == "default":          # Archive() : EpsilonDominance([0.1, 0.1]), itself one shared default instance
        return Archive()
    k = ("pareto",) if kind == "pareto" else tuple(eps)
    if k not in _comparators or (kind == "eps" and list(eps) not in SHARED_EPS):
        _comparators[k] = ParetoDominance() if kind == "pareto" else EpsilonDominance(epsilons=list(eps))
    return Archive(dominance=_comparators[k])


def make_ind(ind, k):
    from artap.individual import Individual
    c, m, f = ind
    # decision vectors are not part of the property: several offered solutions may share one (stochastic or
    # re-evaluated objectives) - every third history position reuses a vector, so that nothing in the archive may
    # identify a member by its design instead of by position / identity
    o = Individual([float(k if k % 3 else 0)])
    if k % 2 == 1:
        o.id = 10 ** 9 - o.id        # ids are not ascending in the order in which solutions are offered
    o.costs_signed = list(c) + [m]
    o.features["verif_feature"] = f
    o.custom["k"] = k
    return o


def members(archive):
    return [o.custom["k"] for o in archive]


class EntryPointMismatch(Exception):
    pass


def impl_run(kind, eps, inds, size, larger):
    """-> (flags, [ids after each add], ids after truncate)"""
    a = make_archive(kind, eps)
    objs = [make_ind(ind, k) for k, ind in enumerate(inds)]
    flags, steps = [], []
    for o in objs:
        flags.append(a.add(o))
        steps.append(members(a))
    # the same history through the other entry points (append, extend, += with one solution or a batch): "any sequence
    # of additions" - the content is the same non-dominated set of everything offered
    b = make_archive(kind, eps)
    objs2 = [make_ind(ind, k) for k, ind in enumerate(inds)]
    k = 0
    while k < len(objs2):
        how = (k + len(objs2)) % 4
        n = 1 + (k * 7 + len(objs2)) % 3
        chunk = objs2[k:k + n]
        if how == 0:
            b.extend(chunk)
        elif how == 1:
            b += chunk
        elif how == 2:
            for o in chunk:
                b.append(o)
        else:
            for o in chunk:
                b += o
        k += n
    if sorted(members(a)) != sorted(members(b)):
        raise EntryPointMismatch("the archive fed through extend / append / += holds members %r, the one fed through add() holds %r "
                                 "(history positions)" % (sorted(members(b)), sorted(members(a))))
    a.truncate(size, "verif_feature", larger_preferred=larger)
    return flags, steps, members(a)


# --------------------------------------------------------------------------- python mirror of the spec

def dom(a, b):
    """a dominates b (textbook, feasibility first); a, b = (costs, marker, feat)"""
    return spec_pareto(a[0], b[0], a[1], b[1]) == 1


def spec_run(inds):
    """what the property demands: per step the expected flag and the set of non-dominated keys"""
    flags, sets = [], []
    for i, x in enumerate(inds):
        prev = inds[:i]
        nd_prev = [a for a in prev if not any(dom(b, a) for b in prev)]
        flags.append(not any(dom(a, x) or key(a) == key(x) for a in nd_prev))
        cur = inds[:i + 1]
        sets.append(frozenset(key(a) for a in cur if not any(dom(b, a) for b in cur)))
    return flags, sets


def impl_ok(kind, eps, inds):
    """property predicate on the implementation alone (used for shrinking and replay)"""
    try:
        flags, steps, _ = impl_run(kind, eps, inds, len(inds), True)
    except Exception:
        return False
    sflags, ssets = spec_run(inds)
    for i in range(len(inds)):
        ks = [key(inds[k]) for k in steps[i]]
        if bool(flags[i]) != sflags[i] or len(ks) != len(set(ks)) or frozenset(ks) != ssets[i]:
            return False
    return True


def trunc_ok(inds, before, after, size, larger):
    """kept members have the largest (smallest) feature values among `before`"""
    fb = sorted((inds[k][2] for k in before), reverse=larger)
    fa = sorted((inds[k][2] for k in after), reverse=larger)
    return fa == fb[:size] and set(after) <= set(before) and len(set(after)) == len(after)


# --------------------------------------------------------------------------- generators

def pool_values(rng, separated):
    mode = rng.random()
    if separated:
        base = [round(rng.uniform(-50, 50), 3) for _ in range(rng.randint(2, 5))]
        return base + [0.0, 1.0, -2.5]
    if mode < 0.45:
        return [float(v) for v in range(rng.randint(2, 4))]
    if mode < 0.8:
        return [rng.uniform(-5, 5) for _ in range(rng.randint(2, 5))]
    return [rng.uniform(-5, 5) for _ in range(2)] + rng.sample(SPECIAL, 3)


def gen_history(rng, n, m, kind):
    """history of (costs, marker, feat) with repeats, chains, multi-evictions, infeasible members"""
    sep = kind != "pareto"
    markers = MARKERS_P if kind == "pareto" else MARKERS_E
    pool = pool_values(rng, sep)
    step = 1.0 if not sep else 0.75
    infeasible_rate = rng.choice([0.0, 0.0, 0.15, 0.4])
    free_markers = rng.random() < 0.3
    inds = []

    def marker():
        if rng.random() >= infeasible_rate:
            return rng.choice([0, False, 0.0])
        return rng.choice(markers) if free_markers else rng.choice([1, True])

    def fresh():
        return [rng.choice(pool) for _ in range(m)]

    style = rng.random()
    if style < 0.2 and m >= 2:
        # a front (mutually non-dominated, inserted in shuffled order), then newcomers that dominate several
        # members at non-adjacent positions of the contents, then dominated ones
        k = max(2, n // 2)
        front = [[float(i), float(k - i)] + [rng.choice(pool) * 0 + 1.0] * (m - 2) for i in range(k)]
        rng.shuffle(front)
        for c in front:
            inds.append((c, 0, rng.choice(FEATS)))
        while len(inds) < n:
            lo = rng.randint(0, k - 1)
            hi = rng.randint(lo, k)
            r = rng.random()
            if r < 0.5:      # dominates front members lo..hi
                c = [lo - 0.5, (k - hi) - 0.5] + [1.0] * (m - 2)
            elif r < 0.75:   # dominated by a member
                c = [lo + 0.5, (k - lo) + 0.5] + [1.0] * (m - 2)
            else:            # repeat of something offered
                c = list(rng.choice(inds)[0])
            inds.append((c, marker(), rng.choice(FEATS)))
        return inds
    while len(inds) < n:
        r = rng.random()
        if inds and r < 0.15:        # exact repeat (cost vector and marker)
            c, mk, _ = rng.choice(inds)
            inds.append((list(c), mk, rng.choice(FEATS)))
        elif inds and r < 0.25:      # same costs, other marker (Pareto: also the marker of opposite sign, |marker| equal)
            c, mk, _ = rng.choice(inds)
            if kind == "pareto" and mk not in (0, False) and rng.random() < 0.5:
                inds.append((list(c), -mk, rng.choice(FEATS)))
            else:
                inds.append((list(c), marker(), rng.choice(FEATS)))
        elif inds and r < 0.45:      # dominating chain: improves an earlier one (evicts it and maybe others)
            c, mk, _ = rng.choice(inds)
            c = [v - step * rng.choice([0, 1, 1, 2]) for v in c]
            inds.append((c, mk, rng.choice(FEATS)))
        elif inds and r < 0.6:       # dominated after dominating
            c, mk, _ = rng.choice(inds)
            c = [v + step * rng.choice([0, 1, 1, 2]) for v in c]
            inds.append((c, mk, rng.choice(FEATS)))
        else:
            inds.append((fresh(), marker(), rng.choice(FEATS)))
    return inds


def separated(inds):
    """eps stream: every pair of coordinate values is bit-identical or further apart than 1e-14 relative (~45 ulp, far
    above the rounding error of one division), so that the scaled comparisons are decided as in exact arithmetic"""
    m = len(inds[0][0])
    for d in range(m):
        vs = sorted(set(ind[0][d] for ind in inds))
        for a, b in zip(vs, vs[1:]):
            if abs(a - b) <= 1e-14 * max(abs(a), abs(b), 1e-300):
                return False
    return True


def near_ties(rng, inds):
    """nearly tied but different values: coordinates moved by relative gaps 1e-13 .. 1e-9 (hundreds to millions of ulps)"""
    out = []
    for c, mk, f in inds:
        c2 = []
        for v in c:
            if rng.random() < 0.5:
                g = 10 ** rng.uniform(-13, -9.05) * rng.choice([-1, 1])
                v = v * (1 + g) if v != 0 else g
            c2.append(v)
        out.append((c2, mk, f))
    return out


def line(kind, eps, inds, size, larger):
    ms = vec([ind[1] for ind in inds], lambda x: str(phix(x)))
    fs = vec([ind[2] for ind in inds], lambda x: str(phix(x)))
    if kind == "pareto":
        cs = mat([ind[0] for ind in inds], lambda x: str(phix(x)))
        return "c04.pareto %s|%s|%s|%d,%d" % (cs, ms, fs, size, 1 if larger else 0)
    cs = mat([ind[0] for ind in inds], rat)
    e = [0.1, 0.1] if kind == "default" else eps
    return "c04.eps %s|%s|%s|%s|%d,%d" % (vec(e, rat), cs, ms, fs, size, 1 if larger else 0)


def parse_answer(ans):
    if ans == "raise":
        return None
    flags, steps, trunc, n = ans.split("|")
    flags = [f == "1" for f in flags.split(",")] if flags else []
    steps = [[int(t) for t in s.split(",")] if s else [] for s in steps.split(";")] if steps else []
    trunc = [int(t) for t in trunc.split(",")] if trunc else []
    return flags, steps, trunc, int(n)


# --------------------------------------------------------------------------- run

def case_dict(kind, eps, inds, size, larger):
    return {"kind": kind, "eps": list(eps) if eps else None, "inds": [[list(c), repr(m), repr(f)] for c, m, f in inds],
            "size": size, "larger": larger}


def undict(c):
    inds = [(list(cc), eval(m, {"inf": math.inf}), eval(f, {"inf": math.inf})) for cc, m, f in c["inds"]]
    return c["kind"], c["eps"], inds, c["size"], c["larger"]


def compare(ctx, kind, eps, inds, size, larger, impl, ans, tag=""):
    """relation R; returns True when a failure was reported"""
    model = parse_answer(ans)
    if isinstance(impl, str) or model is None:
        if isinstance(impl, str) and model is not None:
            report(ctx, ("archive-raise", "Archive.add raised %s where the model (no exception possible: add_index_correct) "
                         "completes" % impl), kind, eps, inds, size, larger)
            return True
        if model is None and not isinstance(impl, str):
            ctx.fail("archive-model-raise", "the model raises (comparator error) on a %s history the code accepts: %r" % (kind, inds),
                     case_dict(kind, eps, inds, size, larger))
            return True
        return False
    flags, steps, trunc = impl
    mflags, msteps, mtrunc, n = model
    assert n == len(inds)
    for i in range(len(inds)):
        ks = [key(inds[k]) for k in steps[i]]
        mk = [key(inds[k]) for k in msteps[i]]
        bad = None
        if bool(flags[i]) != mflags[i]:
            bad = ("archive-add-flag", "add #%d returned %s, the archive model (inserted <=> no member dominates or equals it) says %s" % (i, flags[i], mflags[i]))
        elif len(ks) != len(set(ks)):
            bad = ("archive-duplicate", "after add #%d the archive holds two members with the same signed-cost vector" % i)
        elif frozenset(ks) != frozenset(mk):
            bad = ("archive-content", "after add #%d the archive holds %d cost vectors, the non-dominated set of the history has %d (sets differ)" % (i, len(set(ks)), len(set(mk))))
        if bad:
            report(ctx, bad, kind, eps, inds[:i + 1], size, larger)
            return True
    before = steps[-1] if steps else []
    fa = sorted(phix(inds[k][2]) for k in trunc)
    fm = sorted(phix(inds[k][2]) for k in mtrunc)
    if fa != fm or not set(trunc) <= set(before) or len(set(trunc)) != len(trunc):
        ctx.fail("archive-truncate", "truncate(size=%d, larger_preferred=%s) of members with features %r kept features %r; "
                 "the %s values are %r" % (size, larger, [inds[k][2] for k in before], [inds[k][2] for k in trunc],
                                           "largest" if larger else "smallest", [inds[k][2] for k in mtrunc]),
                 case_dict(kind, eps, inds, size, larger))
        return True
    return False


def report(ctx, bad, kind, eps, inds, size, larger):
    k, what = bad
    idx = list(range(len(inds)))
    if not impl_ok(kind, eps, inds):      # shrink against the python mirror of the spec
        idx = shrink_list(idx, lambda ix: len(ix) >= 1 and not impl_ok(kind, eps, [inds[j] for j in ix]), min_len=1)
    small = [inds[j] for j in idx]
    try:
        flags, steps, _ = impl_run(kind, eps, small, len(small), True)
        got = "flags %r, final members %r" % (flags, [small[j][0] + [small[j][1]] for j in steps[-1]])
    except Exception as e:   # pragma: no cover
        got = "raised %s: %s" % (type(e).__name__, e)
    sflags, ssets = spec_run(small)
    want = "flags %r, final set = the %d non-dominated signed-cost vectors" % (sflags, len(ssets[-1]))
    ctx.fail(k, "%s archive: %s. Shrunk history (costs+[marker]) %r: code gives %s; property demands %s" % (
        kind, what, [c + [m] for c, m, _ in small], got, want), case_dict(kind, eps, small, size, larger))


def nontrivial(model):
    """at least one eviction and one rejection"""
    flags, steps, _, _ = model
    rejected = not all(flags)
    evicted = any(not set(steps[i - 1]) <= set(steps[i]) for i in range(1, len(steps)))
    return rejected and evicted, rejected, evicted


def run(ctx):
    rng = ctx.rng
    ctx.rule = ("histories of add operations (Pareto archive, epsilon archive, default-constructed Archive(); long-lived comparator "
                "objects shared by histories with different numbers of objectives) over small cost pools, 30% with nearly tied values "
                "(relative gaps 1e-13..1e-9), with repeats, dominating chains, dominated-after-dominating, fronts hit by multi-evicting newcomers, infeasible "
                "members, each followed by one truncate; every history is also replayed permuted; non-trivial = at least one "
                "eviction and one rejection; distinct = distinct (comparator, eps, sequence of phi-encoded signed-cost vectors)")
    ctx.assumptions += ["costs and features: finite floats (features may be +-inf as crowding distances are); NaN excluded",
                        "epsilon archive: markers non-negative (the code produces `not feasible`, a bool) and coordinate values "
                        "bit-identical or further apart than 1e-14 relative (a near-tie stream uses gaps 1e-13..1e-9), epsilons positive",
                        "all cost vectors of one history have the same number of objectives"]
    n_hist = 1500 if ctx.quick else 8000
    maxlen = 40 if ctx.quick else 300
    cases = []
    for h in range(n_hist):
        kind = rng.choice(["pareto", "pareto", "eps", "default"])
        m = rng.randint(1, 4) if kind != "default" or rng.random() < 0.5 else 2
        n = rng.randint(1, maxlen) if rng.random() < 0.7 else rng.randint(1, 8)
        if not ctx.quick and rng.random() < 0.9:
            n = min(n, 80)          # keep the bulk moderate; a tenth goes up to 300
        inds = gen_history(rng, n, m, kind)
        if rng.random() < 0.3:
            inds = near_ties(rng, inds)
            ctx.count("near_tie_histories")
        if kind != "pareto" and not separated(inds):
            ctx.count("eps_history_not_separated_skipped")
            continue
        eps = None
        if kind == "eps":
            if rng.random() < 0.5:
                eps = rng.choice(SHARED_EPS)
                ctx.count("eps_shared_comparator")
            else:
                eps = [10 ** rng.uniform(-4, 2) if rng.random() < 0.6 else rng.choice([1.0, 0.5, 0.1, 3.0]) for _ in range(rng.randint(1, m + 1))]
        size = rng.randint(0, n + 2) if rng.random() < 0.7 else rng.randint(0, 3)
        larger = rng.random() < 0.6
        cases.append((kind, eps, inds, size, larger))
        perm = list(inds)
        rng.shuffle(perm)
        cases.append((kind, eps, perm, size, larger))
    if not ctx.quick:   # exhaustive small scope: all histories of length <= 5 over {0,1,2}^2 (Pareto), length <= 4 with a marker
        grid = [[float(a), float(b)] for a in range(3) for b in range(3)]
        for L in range(1, 6):
            for hist in itertools.product(range(9), repeat=L):
                cases.append(("pareto", None, [(grid[g], 0, float(i % 3)) for i, g in enumerate(hist)], 2, True))
        grid2 = [([float(a), float(b)], mk) for a in range(2) for b in range(2) for mk in (0, 1)]
        for L in range(1, 5):
            for hist in itertools.product(range(8), repeat=L):
                cases.append(("eps", [0.1], [(grid2[g][0], grid2[g][1], float(i % 2)) for i, g in enumerate(hist)], 1, False))
        ctx.extra["exhaustive_small_scope"] = ("all Pareto histories of length <= 5 over {0,1,2}^2; all epsilon histories of length <= 4 "
                                               "over {0,1}^2 x markers {0,1}")
    impls = []
    for kind, eps, inds, size, larger in cases:
        try:
            impls.append(impl_run(kind, eps, inds, size, larger))
        except (IndexError, ZeroDivisionError) as e:
            impls.append("%s: %s" % (type(e).__name__, e))
        except EntryPointMismatch as e:
            ctx.fail("archive-entry-points", "%s archive, history (costs+[marker]) %r: %s" % (kind, [list(cc) + [m] for cc, m, _ in inds], e),
                     case_dict(kind, eps, inds, size, larger))
            return
    answers = ctx.lean([line(*c) for c in cases])
    finals = {}
    for ci, (c, impl, ans) in enumerate(zip(cases, impls, answers)):
        kind, eps, inds, size, larger = c
        model = parse_answer(ans)
        nt, rej, ev = nontrivial(model) if model else (False, False, False)
        ctx.case((kind, tuple(eps or ()), tuple(key(i) for i in inds)), nt,
                 sample={"comparator": kind, "eps": eps, "history_costs_marker": [c_ + [repr(m_)] for c_, m_, _ in inds[:12]],
                         "flags": [bool(f) for f in (impl[0][:12] if not isinstance(impl, str) else [])], "truncate": [size, larger]} if nt and len(inds) <= 12 else None)
        ctx.count("kind_" + kind)
        ctx.count("len_%s" % ("1-5" if len(inds) <= 5 else "6-20" if len(inds) <= 20 else "21-80" if len(inds) <= 80 else "81+"))
        ctx.count("has_rejection" if rej else "no_rejection")
        ctx.count("has_eviction" if ev else "no_eviction")
        if model:
            mx = max((len(set(a) - set(b)) for a, b in zip(model[1], model[1][1:])), default=0)
            for a, b in zip(model[1], model[1][1:]):      # evicted members at non-adjacent positions of the contents
                pos = [j for j, k in enumerate(a) if k not in b]
                if len(pos) >= 2 and pos[-1] - pos[0] + 1 > len(pos):
                    ctx.count("adds_evicting_non_adjacent_members")
            ctx.count("max_evicted_by_one_add_%s" % ("0" if mx == 0 else "1" if mx == 1 else "2+"))
            if any(i[1] not in (0, False) for i in inds):
                ctx.count("has_infeasible")
            ctx.count("truncate_cuts" if size < len(model[1][-1]) else "truncate_keeps_all")
        if compare(ctx, kind, eps, inds, size, larger, impl, ans):
            return
        # order independence, directly on the implementation: a history and its permutation (generated in pairs)
        if ci < 2 * n_hist and not isinstance(impl, str):
            fin = frozenset(key(inds[k]) for k in impl[1][-1])
            pk = ci // 2
            if ci % 2 == 0:
                finals[pk] = (fin, c)
            elif pk in finals and finals[pk][1][2] is not None and sorted(map(key, finals[pk][1][2])) == sorted(map(key, inds)):
                ctx.count("permuted_pairs")
                if finals[pk][0] != fin:
                    ctx.fail("archive-order-dependent", "the same %d solutions offered in two orders leave different cost sets (%d vs %d vectors)" % (
                        len(inds), len(finals[pk][0]), len(fin)), dict(case_dict(kind, eps, inds, size, larger),
                                                                         other_order=[[list(cc), repr(m), repr(f)] for cc, m, f in finals[pk][1][2]]))
                    return


def replay(ctx, rp):
    c = rp["case"]
    if "inds" not in c:
        print("nothing to replay:", rp.get("what"))
        return False
    kind, eps, inds, size, larger = undict(c)
    ok = True
    try:
        flags, steps, trunc = impl_run(kind, eps, inds, size, larger)
    except Exception as e:
        print("Archive raised %s: %s" % (type(e).__name__, e))
        return False
    sflags, ssets = spec_run(inds)
    print("history (costs+[marker]):", [cc + [m] for cc, m, _ in inds])
    print("add() returned      :", [bool(f) for f in flags])
    print("property demands    :", sflags)
    print("final members       :", sorted(inds[k][0] + [inds[k][1]] for k in steps[-1]))
    print("non-dominated set   : %d vectors" % len(ssets[-1]))
    ok = impl_ok(kind, eps, inds)
    tk = trunc_ok(inds, steps[-1], trunc, size, larger)
    print("truncate(%d, larger=%s) kept features %r -> %s" % (size, larger, [inds[k][2] for k in trunc], "ok" if tk else "WRONG"))
    if "other_order" in c:
        other = [(list(cc), eval(m, {"inf": math.inf}), eval(f, {"inf": math.inf})) for cc, m, f in c["other_order"]]
        f2, s2, _ = impl_run(kind, eps, other, size, larger)
        same = frozenset(key(other[k]) for k in s2[-1]) == frozenset(key(inds[k]) for k in steps[-1])
        print("other order gives the same cost set:", same)
        ok = ok and same
    return ok and tk


def search(ctx):
    """The harness could not drive the archive any more: try the public entry points that remain."""
    rng = ctx.rng
    for _ in range(300):
        inds = gen_history(rng, rng.randint(1, 12), 2, "pareto")
        try:
            good = impl_ok("pareto", None, inds)
        except Exception:
            return False
        if not good:
            report(ctx, ("archive-content", "archive content differs from the non-dominated set"), "pareto", None, inds, 2, True)
            return True
    return False
